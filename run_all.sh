#!/bin/bash
# Runs every registered check of a tier on the current /repo tree and prints one line per property.
tier=${1:-quick}
cd /verif
for id in $(python3 -c "import json;print(' '.join(sorted(json.load(open('checks.json')).keys())))"); do
  if [ "$tier" = thorough ] && ! python3 -c "import json,sys;sys.exit(0 if 'thorough' in json.load(open('checks.json'))['$id']['tiers'] else 1)"; then continue; fi
  s=$(date +%s); timeout 3600 ./check $id --tier $tier > /tmp/all-$id.log 2>&1; code=$?; e=$(date +%s)
  echo "$id exit=$code $((e-s))s $(grep -E '^(OK|VIOLATION|INCONCLUSIVE)' /tmp/all-$id.log | head -2 | cut -c1-160 | tr '\n' ' ')"
done
