package chained_bft

import (
	"testing"

	"github.com/xuperchain/xupercore/zzverif/vrt"
)

func TestVerifReplay(t *testing.T) {
	vrt.RunReplay(t, map[string]func(){
		"VerifC14Threshold":      VerifC14Threshold,
		"VerifC14QuorumQuick":    VerifC14QuorumQuick,
		"VerifC14QuorumThorough": VerifC14QuorumThorough,
		"VerifC15Quick":          VerifC15Quick,
		"VerifC15Thorough":       VerifC15Thorough,
		"VerifC15DeepQuick":      VerifC15DeepQuick,
		"VerifC15Stale":          VerifC15Stale,
		"VerifC15Rollback":       VerifC15Rollback,
		"VerifC15Deep":           VerifC15Deep,
	})
}
