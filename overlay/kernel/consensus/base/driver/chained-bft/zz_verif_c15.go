package chained_bft

// Harness for property C15 (pending-proposal tree). Injected by overlay from /verif.

import (
	"container/list"

	"github.com/xuperchain/xupercore/zzverif/vrt"
	"github.com/xuperchain/xupercore/zzverif/vrt/vlog"
)

type verifC15 struct {
	t      *QCPendingTree
	P      int
	id     [][]byte // id[i] = {i+1}; root id {0}
	pid    []byte   // symbolic parent id of proposal i (0 = root, 1..P = proposals, P+1 = unknown)
	view   []int64  // symbolic view
	node   []*ProposalNode
	sent   []bool
	rootID byte
	// predicates of the known-finding classes (see /verif/known_findings.json)
	chainedOrphans bool // a proposal was delivered while its own parent was stored as an orphan, or as the parent of two or more orphan heads
	rootMoved      bool // the commit rule has moved the root
	shortChain     bool // the highest-certified marker moved to a node with fewer than three ancestors in the tree
}

// collect appends all nodes of the subtree (pre-order).
func verifCollect(n *ProposalNode, out *[]*ProposalNode, depth int) {
	if n == nil || depth > 32 {
		return
	}
	*out = append(*out, n)
	for _, s := range n.Sons {
		verifCollect(s, out, depth+1)
	}
}

func (h *verifC15) inMainTree(n *ProposalNode) bool {
	var all []*ProposalNode
	verifCollect(h.t.Root, &all, 0)
	for _, x := range all {
		if x == n {
			return true
		}
	}
	return false
}

func (h *verifC15) parentOf(n *ProposalNode) *ProposalNode {
	if n == nil {
		return nil
	}
	return h.t.DFSQueryNode(n.In.GetParentProposalId())
}

func (h *verifC15) checkInvariants(when string) {
	t := h.t
	// stored nodes: main tree + orphan subtrees
	var all []*ProposalNode
	verifCollect(t.Root, &all, 0)
	nMain := len(all)
	for e := t.OrphanList.Front(); e != nil; e = e.Next() {
		verifCollect(e.Value.(*ProposalNode), &all, 0)
	}
	// I1: nothing stored twice (by identity or by id)
	for i := 0; i < len(all); i++ {
		for j := i + 1; j < len(all); j++ {
			vrt.Assert(all[i] != all[j], "no-node-stored-twice")
			vrt.Assert(string(all[i].In.GetProposalId()) != string(all[j].In.GetProposalId()), "no-id-stored-twice")
		}
	}
	// I2: an orphan subtree head whose parent is in the main tree must have been adopted
	for e := t.OrphanList.Front(); e != nil; e = e.Next() {
		o := e.Value.(*ProposalNode)
		vrt.Known("orphan-forest-not-merged", h.chainedOrphans)
		vrt.Assert(t.DFSQueryNode(o.In.GetParentProposalId()) == nil, "orphan-with-present-parent-is-adopted")
	}
	// I3: the highest-certified marker is a node of the tree
	vrt.Assert(t.HighQC != nil, "highqc-set")
	inMain := false
	for i := 0; i < nMain; i++ {
		if all[i] == t.HighQC {
			inMain = true
		}
	}
	vrt.Known("marker-above-root-after-commit", h.rootMoved)
	vrt.Assert(inMain, "highqc-in-tree")
	// I4: generic / locked / commit markers, when set, are the successive ancestors
	if t.GenericQC != nil {
		vrt.Known("stale-markers-after-short-chain", h.shortChain)
		vrt.Assert(h.parentOf(t.HighQC) == t.GenericQC, "generic-is-parent-of-high")
	}
	if t.LockedQC != nil && t.GenericQC != nil {
		vrt.Known("stale-markers-after-short-chain", h.shortChain)
		vrt.Assert(h.parentOf(t.GenericQC) == t.LockedQC, "locked-is-grandparent-of-high")
	}
	if t.CommitQC != nil && t.LockedQC != nil && t.GenericQC != nil && t.CommitQC != t.Genesis {
		vrt.Known("stale-markers-after-short-chain", h.shortChain)
		vrt.Assert(h.parentOf(t.LockedQC) == t.CommitQC, "commit-is-great-grandparent-of-high")
	}
	_ = when
}

// classify evaluates the predicate of the known-finding class orphan-forest-not-merged before node n is
// delivered: n is the parent of an orphan head and, in addition, either the parent of a second head or
// the child of a node stored in an orphan subtree (insertOrphan links it against the first head only).
// A proposal that merely joins an orphan subtree under its parent is handled correctly and is NOT in the class.
func (h *verifC15) classify(n *ProposalNode) {
	heads, parentInOrphan := 0, false
	for e := h.t.OrphanList.Front(); e != nil; e = e.Next() {
		o := e.Value.(*ProposalNode)
		if DFSQuery(o, n.In.GetParentProposalId()) != nil {
			parentInOrphan = true
		}
		if string(o.In.GetParentProposalId()) == string(n.In.GetProposalId()) {
			heads++
		}
	}
	if heads >= 1 && parentInOrphan {
		h.chainedOrphans = true
	}
	if heads >= 2 && h.t.DFSQueryNode(n.In.GetParentProposalId()) == nil {
		h.chainedOrphans = true
	}
}

// verifC15Stale: a directed history with arbitrary views: main chain m1 <- m2 under the root, two orphan
// heads S and A (unknown parents) filed in either order, the root committed forward so that S may
// have become stale, then a child of A and finally A's missing parent (a child of the new root) arrive.
// Every accepted proposal must then be stored in the tree or be a genuine orphan.
func verifC15Stale() {
	h := &verifC15{P: 6}
	initQC := &QuorumCert{VoteInfo: &VoteInfo{ProposalId: []byte{0}, ProposalView: 0}, LedgerCommitInfo: &LedgerCommitInfo{CommitStateId: []byte{0}}}
	root := &ProposalNode{In: initQC}
	h.t = &QCPendingTree{Genesis: root, Root: root, HighQC: root, CommitQC: root, OrphanList: list.New(), OrphanMap: make(map[string]bool), Log: vlog.Nop{}}
	mk := func(id, parent byte, view, pview int64) *ProposalNode {
		return &ProposalNode{In: &QuorumCert{VoteInfo: &VoteInfo{ProposalId: []byte{id}, ProposalView: view, ParentId: []byte{parent}, ParentView: pview}}}
	}
	var mv [6]int64
	for i := 1; i <= 5; i++ {
		mv[i] = vrt.Int("v-m"+string([]byte{byte('0' + i)}), int64(i), int64(2*i))
		vrt.Assume(mv[i] > mv[i-1])
	}
	vs := vrt.Int("v-S", 1, 12)
	vpa := vrt.Int("v-PA", 6, 14)
	va := vrt.Int("v-A", 7, 16)
	vc := vrt.Int("v-C", 8, 18)
	vrt.Assume(mv[5] < vpa && vpa < va && va < vc)
	S := mk(6, 90, vs, vs-1)   // parent 90 never arrives
	A := mk(7, 8, va, vpa)     // parent PA (id 8) arrives last
	C := mk(9, 7, vc, va)      // child of A
	PA := mk(8, 5, vpa, mv[5]) // child of m5
	deliver := func(n *ProposalNode) {
		h.classify(n)
		vrt.Assert(h.t.updateQcStatus(n) == nil, "delivery-accepted")
	}
	for i := 1; i <= 5; i++ {
		deliver(mk(byte(i), byte(i-1), mv[i], mv[i-1]))
	}
	if vrt.Choice("orphan-order", 2) == 0 {
		deliver(S)
		deliver(A)
	} else {
		deliver(A)
		deliver(S)
	}
	h.t.updateHighQC([]byte{5})
	h.t.updateCommit([]byte{byte(4 + vrt.Choice("commit", 2))}) // the root moves to m1 or m2
	vrt.Cover("root-moved", h.t.Root != root)
	vrt.Cover("stale-orphan-head", vs <= h.t.Root.In.GetProposalView())
	// a proposal stored under the new root is delivered once more (a fresh object with the same content)
	if d := vrt.Choice("redeliver", 4); d > 0 {
		i := 2 + d // m3, m4 or m5: below the new root (m1 or m2)
		deliver(mk(byte(i), byte(i-1), mv[i], mv[i-1]))
		h.checkInvariants("redelivery")
	}
	deliver(C)
	deliver(PA)
	// every delivered proposal above the root's view is stored: under the root, or as an orphan whose parent is missing
	h.checkInvariants("end")
	stored := func(id byte) bool {
		if h.t.DFSQueryNode([]byte{id}) != nil {
			return true
		}
		for e := h.t.OrphanList.Front(); e != nil; e = e.Next() {
			if DFSQuery(e.Value.(*ProposalNode), []byte{id}) != nil {
				return true
			}
		}
		return false
	}
	vrt.Assert(h.t.DFSQueryNode([]byte{8}) != nil, "parent-joins-the-tree")
	vrt.Known("orphan-forest-not-merged", h.chainedOrphans)
	vrt.Assert(h.t.DFSQueryNode([]byte{7}) != nil && h.t.DFSQueryNode([]byte{9}) != nil, "orphan-subtree-adopted-with-its-children")
	_ = stored
}

// verifC15Rollback: a certified chain m1..m6 above the root, the highest-certified marker on any of its
// nodes (markers derived by updateHighQC), then the explicit rollback enforceUpdateHighQC to any node
// of the chain or the root.  Afterwards the highest-certified marker names the target and the generic /
// locked / commit markers are its successive ancestors as far as they are set - nothing from before
// the rollback survives.
func verifC15Rollback() {
	initQC := &QuorumCert{VoteInfo: &VoteInfo{ProposalId: []byte{0}, ProposalView: 0}, LedgerCommitInfo: &LedgerCommitInfo{CommitStateId: []byte{0}}}
	root := &ProposalNode{In: initQC}
	t := &QCPendingTree{Genesis: root, Root: root, HighQC: root, CommitQC: root, OrphanList: list.New(), OrphanMap: make(map[string]bool), Log: vlog.Nop{}}
	nodes := []*ProposalNode{root}
	for i := 1; i <= 6; i++ {
		n := &ProposalNode{In: &QuorumCert{VoteInfo: &VoteInfo{ProposalId: []byte{byte(i)}, ProposalView: int64(i), ParentId: []byte{byte(i - 1)}, ParentView: int64(i - 1)}}}
		vrt.Assert(t.updateQcStatus(n) == nil, "delivery-accepted")
		nodes = append(nodes, n)
	}
	t.updateHighQC([]byte{byte(1 + vrt.Choice("certified", 6))})
	target := vrt.Choice("rollback-target", 7)
	vrt.Assert(t.enforceUpdateHighQC([]byte{byte(target)}) == nil, "rollback-accepted")
	vrt.Assert(t.HighQC == nodes[target], "rollback-high-is-the-target")
	anc := func(k int) *ProposalNode {
		if target-k >= 0 {
			return nodes[target-k]
		}
		return nil
	}
	vrt.Assert(t.GenericQC == anc(1), "rollback-generic-is-parent-of-high-or-unset")
	vrt.Assert(t.LockedQC == anc(2), "rollback-locked-is-grandparent-of-high-or-unset")
	vrt.Assert(t.CommitQC == anc(3), "rollback-commit-is-great-grandparent-of-high-or-unset")
	vrt.Cover("rollback-below-a-set-commit-marker", target == 2)
}

func VerifC15Rollback() { verifC15Rollback() }

func verifC15Run(P, S int) { verifC15Drive(P, S, false) }

// verifC15Deep: all P proposals are delivered first, in an arbitrary order,
// then S further free events follow (long enough chains for the commit rule).
func verifC15Deep(P, S int) { verifC15Drive(P, S, true) }

func verifC15Drive(P, S int, deliverAllFirst bool) {
	h := &verifC15{P: P}
	initQC := &QuorumCert{VoteInfo: &VoteInfo{ProposalId: []byte{0}, ProposalView: 0}, LedgerCommitInfo: &LedgerCommitInfo{CommitStateId: []byte{0}}}
	root := &ProposalNode{In: initQC}
	h.t = &QCPendingTree{Genesis: root, Root: root, HighQC: root, CommitQC: root, OrphanList: list.New(), OrphanMap: make(map[string]bool), Log: vlog.Nop{}}

	// a symbolic forest: parent ids and views are solver variables
	for i := 0; i < P; i++ {
		h.id = append(h.id, []byte{byte(i + 1)})
		p := vrt.Byte("parent" + string([]byte{byte('0' + i)}))
		vrt.Assume(int(p) <= P+1 && int(p) != i+1)
		v := vrt.Int("view"+string([]byte{byte('0' + i)}), 1, 16)
		h.pid = append(h.pid, p)
		h.view = append(h.view, v)
	}
	// the protocol guarantees view(child) > view(parent); no cycles follow from that
	for i := 0; i < P; i++ {
		for j := 0; j < P; j++ {
			if i != j {
				vrt.Assume(!(int(h.pid[i]) == j+1) || h.view[i] > h.view[j])
			}
		}
	}
	for i := 0; i < P; i++ {
		var pv int64
		for j := 0; j < P; j++ {
			if int(h.pid[i]) == j+1 {
				pv = h.view[j]
			}
		}
		qc := &QuorumCert{VoteInfo: &VoteInfo{ProposalId: h.id[i], ProposalView: h.view[i], ParentId: []byte{h.pid[i]}, ParentView: pv}}
		h.node = append(h.node, &ProposalNode{In: qc})
		h.sent = append(h.sent, false)
	}

	total := S
	var order []int
	if deliverAllFirst {
		total = P + S
		rest := make([]int, P)
		for i := range rest {
			rest[i] = i
		}
		for len(rest) > 0 {
			j := vrt.Choice("order", len(rest))
			order = append(order, rest[j])
			rest = append(rest[:j], rest[j+1:]...)
		}
	}
	for step := 0; step < total; step++ {
		var kind, i int
		if deliverAllFirst && step < P {
			kind, i = 0, order[step]
		} else if deliverAllFirst {
			kind = 1 + vrt.Choice("event", 3)
			i = vrt.Choice("target", P)
		} else {
			kind = vrt.Choice("event", 4)
			i = vrt.Choice("target", P)
		}
		highBefore := h.t.HighQC.In.GetProposalView()
		highNodeBefore := h.t.HighQC
		rootBefore := h.t.Root
		var underRootBefore []*ProposalNode
		verifCollect(rootBefore, &underRootBefore, 0)
		switch kind {
		case 0: // a proposal arrives (any order, duplicates allowed)
			n := h.node[i]
			// class predicate: is the parent of this proposal currently stored as an orphan?
			h.classify(n)
			if h.sent[i] {
				// a duplicate delivery is a fresh object with the same content
				n = &ProposalNode{In: n.In}
			}
			err := h.t.updateQcStatus(n)
			vrt.Assert(err == nil, "delivery-accepted")
			h.sent[i] = true
			vrt.Assert(h.t.HighQC.In.GetProposalView() >= highBefore, "highqc-view-monotone-on-delivery")
		case 1: // a quorum certifies proposal i
			h.t.updateHighQC(h.id[i])
			vrt.Assert(h.t.HighQC.In.GetProposalView() >= highBefore, "highqc-view-monotone-on-certify")
		case 2: // commit rule fires for proposal i
			h.t.updateCommit(h.id[i])
			// I6: the new root is the old root or one of its descendants
			desc := false
			for _, x := range underRootBefore {
				if x == h.t.Root {
					desc = true
				}
			}
			vrt.Assert(desc, "root-moves-to-descendant")
		case 3: // explicit rollback
			h.t.enforceUpdateHighQC(h.id[i])
		}
		if h.t.HighQC != highNodeBefore && kind != 3 {
			p1 := h.parentOf(h.t.HighQC)
			p2 := h.parentOf(p1)
			p3 := h.parentOf(p2)
			if p1 == nil || p2 == nil || p3 == nil {
				h.shortChain = true
			}
		}
		if h.t.Root != rootBefore {
			h.rootMoved = true
		}
		vrt.Cover("orphan-present", h.t.OrphanList.Len() > 0)
		if deliverAllFirst {
			vrt.Cover("root-moved", h.t.Root != root)
		}
		h.checkInvariants("step")
	}
}

func VerifC15Quick()     { verifC15Run(3, 3) }
func VerifC15Thorough()  { verifC15Run(4, 4) }
func VerifC15DeepQuick() { verifC15Deep(4, 1) }
func VerifC15Stale()     { verifC15Stale() }
func VerifC15Deep()      { verifC15Deep(5, 2) }
