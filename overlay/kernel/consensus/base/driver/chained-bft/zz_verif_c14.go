package chained_bft

// Harnesses for property C14 (quorum certificates). Injected by build overlay
// from /verif; not part of the repository.

import (
	cCrypto "github.com/xuperchain/xupercore/kernel/consensus/base/driver/chained-bft/crypto"
	chainedBftPb "github.com/xuperchain/xupercore/kernel/consensus/base/driver/chained-bft/pb"
	"github.com/xuperchain/xupercore/zzverif/vrt"
	"github.com/xuperchain/xupercore/zzverif/vrt/vcrypto"
	"github.com/xuperchain/xupercore/zzverif/vrt/vlog"
)

// VerifC14Threshold: CalVotesThreshold(input, sum) for every pair of ints.
// Specification (property text): with n = sum validators, a certificate needs
// at least n - floor((n-1)/3) - 1 signatures besides the collector.
func VerifC14Threshold() {
	input := int(vrt.Int("input", -1<<62, 1<<62))
	sum := int(vrt.Int("sum", 1, 1<<62)) // the property speaks of validator sets of size >= 1
	s := &DefaultSaftyRules{}
	got := s.CalVotesThreshold(input, sum)
	want := input >= sum-(sum-1)/3-1
	vrt.Cover("accept", got)
	vrt.Cover("reject", !got)
	vrt.Assert(got == want, "threshold-matches-spec")
}

func verifC14Universe(n int) []string {
	vals := make([]string, n)
	for i := range vals {
		vals[i] = string([]byte{byte('a' + i)})
	}
	return vals
}

// verifC14Quorum drives CheckProposal with n validators and k certificate
// entries whose member/outsider/repeated status, key binding and signature
// validity are all decided by the solver.
func verifC14Quorum(maxN, maxK int, shareKeys bool) {
	n := 1 + vrt.Choice("n", maxN)
	k := vrt.Choice("k", maxK+1)
	vals := verifC14Universe(n)

	addr := make([]string, k)    // address claimed by entry i (1 symbolic byte)
	keyOf := make([]int, k)      // the public key entry i carries: its own or one an earlier entry carries too
	keyAddr := make([]string, k) // the address key j really hashes to (1 symbolic byte)
	bound := make([]bool, k)     // key of entry i really hashes to the address the entry claims
	valid := make([]bool, k)     // signature of entry i verifies for the certified id under its key
	signs := make([]*chainedBftPb.QuorumCertSign, k)
	for i := 0; i < k; i++ {
		keyAddr[i] = vrt.String("keyaddr"+string([]byte{byte('0' + i)}), 1)
	}
	for i := 0; i < k; i++ {
		addr[i] = vrt.String("addr"+string([]byte{byte('0' + i)}), 1)
		keyOf[i] = i
		if shareKeys {
			keyOf[i] = vrt.Choice("key", i+1)
		}
		bound[i] = addr[i] == keyAddr[keyOf[i]]
		valid[i] = vrt.Bool("valid" + string([]byte{byte('0' + i)}))
		signs[i] = &chainedBftPb.QuorumCertSign{
			Address:   addr[i],
			PublicKey: string([]byte{'p', byte('0' + keyOf[i])}),
			Sign:      []byte{byte(i)},
		}
	}
	certID := []byte{1}
	stub := &vcrypto.Stub{
		ParseKey: func(s string) (int, bool) {
			if len(s) == 2 && s[0] == 'p' {
				return int(s[1] - '0'), true
			}
			return 0, false
		},
		Addr: func(id int) string { return keyAddr[id] },
		Verify: func(id int, sig, msg []byte) bool {
			if len(msg) != 1 || msg[0] != certID[0] || len(sig) != 1 || int(sig[0]) >= k {
				return false
			}
			e := int(sig[0]) // the signature of entry e verifies under the key that entry carries, if valid at all
			return keyOf[e] == id && valid[e]
		},
	}
	root := &ProposalNode{In: &QuorumCert{VoteInfo: &VoteInfo{ProposalId: certID, ProposalView: 1, ParentId: []byte{0}, ParentView: 0}}}
	tree := &QCPendingTree{Genesis: root, Root: root, HighQC: root, Log: vlog.Nop{}}
	s := &DefaultSaftyRules{QcTree: tree, Log: vlog.Nop{}, Crypto: &cCrypto.CBFTCrypto{CryptoClient: stub}}

	parent := &QuorumCert{VoteInfo: &VoteInfo{ProposalId: certID, ProposalView: 1, ParentId: []byte{0}, ParentView: 0}, SignInfos: signs}
	proposal := &QuorumCert{VoteInfo: &VoteInfo{ProposalId: []byte{2}, ProposalView: 2, ParentId: certID, ParentView: 1}}

	err := s.CheckProposal(proposal, parent, vals)

	// Oracle: number of distinct validator addresses that have at least one
	// entry which is key-bound and carries a valid signature over certID.
	distinct := 0
	repeated := false
	for j := 0; j < n; j++ {
		cnt := 0
		good := false
		for i := 0; i < k; i++ {
			if addr[i] == vals[j] {
				cnt++
				if bound[i] && valid[i] {
					good = true
				}
			}
		}
		if good {
			distinct++
		}
		if cnt > 1 {
			repeated = true
		}
	}
	need := n - (n-1)/3 - 1
	vrt.Known("dup-signer", repeated)
	vrt.Cover("accepted", err == nil)
	vrt.Cover("rejected", err != nil)
	vrt.Assert(err != nil || distinct >= need, "quorum-distinct-valid-members")
	// Completeness: a certificate whose member entries are all good and
	// distinct and reach the threshold is not refused for lack of votes.
	allGood := true
	for i := 0; i < k; i++ {
		member := false
		for j := 0; j < n; j++ {
			if addr[i] == vals[j] {
				member = true
			}
		}
		if member && !(bound[i] && valid[i]) {
			allGood = false
		}
	}
	vrt.Assert(!(allGood && !repeated && distinct >= need) || err == nil, "quorum-complete")
}

func VerifC14QuorumQuick()    { verifC14Quorum(4, 4, true) }
func VerifC14QuorumThorough() { verifC14Quorum(5, 5, false) }
