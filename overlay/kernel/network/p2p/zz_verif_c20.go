package p2p

// Harnesses for property C20. Injected by overlay from /verif.

import (
	"bytes"
	"hash/crc32"
	"os"
	"sync"

	"github.com/golang/protobuf/proto"

	xconf "github.com/xuperchain/xupercore/kernel/common/xconfig"
	xctx "github.com/xuperchain/xupercore/kernel/common/xcontext"
	nctx "github.com/xuperchain/xupercore/kernel/network/context"
	"github.com/xuperchain/xupercore/lib/logs"
	"github.com/xuperchain/xupercore/lib/timer"
	pb "github.com/xuperchain/xupercore/protos"
	"github.com/xuperchain/xupercore/zzverif/vrt"
	"github.com/xuperchain/xupercore/zzverif/vrt/vlog"
)

// verifC20ZeroSum: a payload whose encoded form (snappy literal of the protobuf bytes) has CRC-32 zero;
// checksum values are otherwise uninterpreted to the executor, so this boundary value is supplied concretely.
var verifC20ZeroSum = []byte{111, 107, 190, 0, 109, 198}

func verifC20Msg(maxLen int) (*pb.XuperMessage, *pb.XuperMessage_MessageData, pb.XuperMessage_MessageType) {
	payload := &pb.XuperMessage_MessageData{}
	if vrt.Choice("payload-kind", 2) == 0 {
		payload.MsgInfo = append([]byte{}, verifC20ZeroSum...)
	} else {
		payload.MsgInfo = vrt.Bytes("payload", vrt.Choice("payload-len", maxLen+1))
	}
	typ := pb.XuperMessage_MessageType(vrt.Int("type", 0, 25))
	return NewMessage(typ, payload, WithBCName("xuper"), WithLogId("L1")), payload, typ
}

// verifC20RoundTrip: a message built by NewMessage with an arbitrary payload (0..maxLen bytes), type and
// options, carried as protobuf bytes, decodes at the receiver to the identical payload and header.
func verifC20RoundTrip(maxLen int) {
	payload := &pb.XuperMessage_MessageData{MsgInfo: vrt.Bytes("payload", vrt.Choice("payload-len", maxLen+1))}
	typ := pb.XuperMessage_MessageType(vrt.Int("type", 0, 25))
	et := pb.XuperMessage_ErrorType(vrt.Int("error-type", 0, 12))
	bc := string(vrt.Bytes("bcname", 2))
	var opts []MessageOption
	withOpts := vrt.Bool("with-options")
	if withOpts {
		opts = []MessageOption{WithBCName(bc), WithLogId("L1"), WithVersion(MessageVersion2), WithErrorType(et)}
	}
	msg := NewMessage(typ, payload, opts...)
	vrt.Assert(msg.Header.Type == typ, "header-carries-type")
	if withOpts {
		vrt.Assert(msg.Header.Bcname == bc && msg.Header.Logid == "L1" && msg.Header.Version == MessageVersion2 && msg.Header.ErrorType == et, "header-carries-options")
	} else {
		vrt.Assert(msg.Header.Bcname == "xuper" && msg.Header.Version == MessageVersion3 && msg.Header.ErrorType == pb.XuperMessage_NONE, "header-carries-defaults")
	}
	vrt.Assert(VerifyChecksum(msg), "built-message-verifies")
	wire, err := proto.Marshal(msg)
	vrt.Assert(err == nil, "message-marshals")
	got := &pb.XuperMessage{}
	vrt.Assert(proto.Unmarshal(wire, got) == nil, "message-unmarshals")
	out := &pb.XuperMessage_MessageData{}
	err = Unmarshal(got, out)
	vrt.Cover("compressed", got.Header.EnableCompress)
	vrt.Cover("empty-payload", len(payload.MsgInfo) == 0)
	vrt.Assert(err == nil, "decode-succeeds")
	vrt.Assert(bytes.Equal(out.MsgInfo, payload.MsgInfo), "decoded-payload-is-sent-payload")
	vrt.Assert(got.Header.Type == typ && got.Header.Bcname == msg.Header.Bcname && got.Header.Logid == msg.Header.Logid && got.Header.DataCheckSum == msg.Header.DataCheckSum, "decoded-header-is-sent-header")
	// request / response pairing
	rt := GetRespMessageType(typ)
	vrt.Assert(rt != typ, "response-type-differs-from-request-type")
	typ2 := pb.XuperMessage_MessageType(vrt.Int("type2", 0, 25))
	if typ2 != typ && typ%2 == 0 && typ2%2 == 0 {
		vrt.Assert(GetRespMessageType(typ2) != rt, "distinct-requests-have-distinct-response-types")
	}
}

// verifC20Corrupt: the encoded payload of a built message is hit by an arbitrary non-zero error pattern
// confined to a window of at most 32 consecutive bits (any position; single-bit flips included), or the
// checksum field is changed: Unmarshal reports an error and delivers nothing.
func verifC20Corrupt(maxLen int) {
	msg, _, _ := verifC20Msg(maxLen)
	vrt.Cover("message-with-zero-checksum", msg.Header.DataCheckSum == 0 && len(msg.Data.MsgInfo) > 0)
	enc := msg.Data.MsgInfo
	n := len(enc)
	bad := &pb.XuperMessage{Header: proto.Clone(msg.Header).(*pb.XuperMessage_MessageHeader), Data: &pb.XuperMessage_MessageData{}}
	if vrt.Choice("target", 2) == 1 {
		// the checksum field itself
		c := uint32(vrt.Int("checksum", 0, 1<<32-1))
		vrt.Assume(c != msg.Header.DataCheckSum)
		bad.Header.DataCheckSum = c
		bad.Data.MsgInfo = enc
	} else {
		if n == 0 {
			return
		}
		// window: bytes [at, at+4], bit offset s inside the first byte (least significant bit first)
		at := vrt.Choice("byte-offset", n)
		s := uint(vrt.Choice("bit-offset", 8))
		cor := append([]byte{}, enc...)
		changed := false
		for j := 0; j < 5 && at+j < n; j++ {
			if j == 4 && s == 0 {
				break
			}
			b := vrt.Byte("corrupted")
			switch {
			case j == 0:
				vrt.Assume(b%(1<<s) == enc[at]%(1<<s)) // bits below the window start are intact
			case j == 4:
				vrt.Assume(b>>s == enc[at+4]>>s) // bits past 32 are intact
			}
			cor[at+j] = b
			changed = changed || b != enc[at+j]
		}
		vrt.Assume(changed)
		bad.Data.MsgInfo = cor
	}
	out := &pb.XuperMessage_MessageData{}
	err := Unmarshal(bad, out)
	vrt.Cover("payload-window-corrupted", true)
	vrt.Assert(err != nil, "corruption-is-detected")
	vrt.Assert(len(out.MsgInfo) == 0, "nothing-is-delivered-from-a-corrupted-message")
}

// verifC20CrcSpec: hash/crc32.ChecksumIEEE, as called by Checksum / VerifyChecksum, equals the bit-level
// definition the burst lemmas are discharged on (reflected polynomial, all-ones initial value and final
// xor), on the repository's test payloads and a few others (concrete inputs: both sides are evaluated).
func verifC20CrcSpec() {
	step := func(crc uint32, b byte) uint32 {
		crc ^= uint32(b)
		for i := 0; i < 8; i++ {
			if crc&1 == 1 {
				crc = crc>>1 ^ crc32.IEEE
			} else {
				crc >>= 1
			}
		}
		return crc
	}
	spec := func(data []byte) uint32 {
		crc := ^uint32(0)
		for _, b := range data {
			crc = step(crc, b)
		}
		return ^crc
	}
	for _, p := range [][]byte{nil, []byte("hello world"), []byte("a"), {0}, {0xff, 0xff, 0xff, 0xff, 0xff}, []byte("The quick brown fox jumps over the lazy dog")} {
		msg := &pb.XuperMessage{Header: &pb.XuperMessage_MessageHeader{}, Data: &pb.XuperMessage_MessageData{MsgInfo: p}}
		vrt.Assert(Checksum(msg) == spec(p), "library-checksum-equals-bit-level-definition")
	}
}

type verifStream struct{ sent int }

func (s *verifStream) Send(*pb.XuperMessage) error { s.sent++; return nil }

func verifC20Ctx() *nctx.NetCtx {
	if vrt.Native() {
		// Dispatch creates a logger per message; natively the logging subsystem has to be up
		dir, _ := os.MkdirTemp("", "verif-c20-logs")
		logs.InitLog("../../mock/conf/log.yaml", dir)
	}
	ctx := &nctx.NetCtx{EnvCfg: &xconf.EnvConf{}}
	ctx.XLog = vlog.Nop{}
	ctx.Timer = timer.NewXTimer()
	return ctx
}

// verifC20Dispatch: nsub recording subscribers with arbitrary type (of two), chain filter and sender
// filter, each registered or not; an arbitrary message is dispatched; it is handed exactly once to the
// registered subscribers of its type whose filters match and to no other; a repeat inside the
// de-duplication window is dropped, a repeat after it is delivered again.
func verifC20Dispatch(nsub int) {
	ctx := verifC20Ctx()
	d := NewDispatcher(ctx)
	types := []pb.XuperMessage_MessageType{pb.XuperMessage_SENDBLOCK, pb.XuperMessage_POSTTX, pb.XuperMessage_GET_BLOCK}
	// names are one arbitrary letter; a filter is either absent ("") or one arbitrary letter
	name := func(tag string) string {
		b := vrt.Byte(tag)
		vrt.Assume(b >= 'a' && b <= 'c')
		return string([]byte{b})
	}
	filter := func(tag string) string {
		if vrt.Choice(tag+"-set", 2) == 0 {
			return ""
		}
		return name(tag)
	}
	calls := make([]int, nsub)
	want := make([]bool, nsub)
	mt := types[vrt.Choice("msg-type", 3)]
	mbc := name("msg-chain")
	mfrom := name("msg-from")
	anyOfType := false
	for i := 0; i < nsub; i++ {
		i := i
		st := types[vrt.Choice("sub-type", 2)]
		sbc := filter("sub-chain")
		sfrom := filter("sub-from")
		reg := vrt.Choice("registered", 2) == 1
		sub := NewSubscriber(ctx, st, HandleFunc(func(xctx.XContext, *pb.XuperMessage) (*pb.XuperMessage, error) {
			calls[i]++
			return nil, nil
		}), WithFilterBCName(sbc), WithFilterFrom(sfrom))
		vrt.Assert(sub != nil, "subscriber-created")
		if reg {
			vrt.Assert(d.Register(sub) == nil, "register-succeeds")
			vrt.Assert(d.Register(sub) == ErrRegistered, "second-register-is-refused")
			if st == mt {
				anyOfType = true
			}
		} else if vrt.Choice("was-registered-before", 2) == 1 {
			vrt.Assert(d.Register(sub) == nil, "register-succeeds")
			vrt.Assert(d.UnRegister(sub) == nil, "unregister-succeeds")
		}
		want[i] = reg && st == mt && (sbc == "" || sbc == mbc) && (sfrom == "" || sfrom == mfrom)
	}
	msg := NewMessage(mt, &pb.XuperMessage_MessageData{MsgInfo: vrt.Bytes("payload", 1)}, WithBCName(mbc), WithLogId("L1"))
	msg.Header.From = mfrom
	stream := &verifStream{}
	err := d.Dispatch(msg, stream)
	vrt.Quiesce()
	if !anyOfType {
		_ = err
	} else {
		vrt.Assert(err == nil, "dispatch-succeeds")
	}
	nwant := 0
	for i := range calls {
		w := 0
		if want[i] {
			w = 1
			nwant++
		}
		vrt.Assert(calls[i] == w, "handed-exactly-once-to-matching-subscribers-and-to-no-other")
	}
	vrt.Cover("delivered-to-two", nwant >= 2)
	vrt.Cover("delivered-to-none", nwant == 0)
	// the repeat
	handledFirst := err == nil
	late := vrt.Choice("repeat-after-window", 2) == 1
	if late {
		vrt.AdvanceClock(3_100_000_000)
	} else {
		vrt.AdvanceClock(2_800_000_000)
	}
	err = d.Dispatch(msg, stream)
	vrt.Quiesce()
	for i := range calls {
		w := 0
		if want[i] {
			w = 1
			if late || !handledFirst {
				w = 2
			}
		}
		vrt.Assert(calls[i] == w, "repeat-is-dropped-inside-the-window-and-delivered-after-it")
	}
}

// verifC20Concurrent: goroutines doing Register / UnRegister / Dispatch on one dispatcher with shared
// subscribers; every interleaving of their synchronisation steps within the preemption bound, with
// the happens-before monitor on the dispatcher's maps: no crash, no unordered map access, and every
// dispatch hands its message at most once to each subscriber and never to one of another type.
func verifC20Concurrent(nthreads int) {
	ctx := verifC20Ctx()
	d := NewDispatcher(ctx)
	calls := make([]int, 2)
	var mu sync.Mutex
	mk := func(i int, typ pb.XuperMessage_MessageType) Subscriber {
		return NewSubscriber(ctx, typ, HandleFunc(func(xctx.XContext, *pb.XuperMessage) (*pb.XuperMessage, error) {
			mu.Lock()
			calls[i]++
			mu.Unlock()
			return nil, nil
		}))
	}
	subs := []Subscriber{mk(0, pb.XuperMessage_SENDBLOCK), mk(1, pb.XuperMessage_POSTTX)}
	if vrt.Choice("pre-registered", 2) == 1 {
		vrt.Assert(d.Register(subs[0]) == nil, "register-succeeds")
	}
	msgs := []*pb.XuperMessage{
		NewMessage(pb.XuperMessage_SENDBLOCK, nil, WithLogId("L1")),
		NewMessage(pb.XuperMessage_SENDBLOCK, nil, WithLogId("L2")),
	}
	dispatched := 0
	var wg sync.WaitGroup
	ops := make([]int, nthreads)
	for t := 0; t < nthreads; t++ {
		ops[t] = vrt.Choice("op", 4)
	}
	vrt.ExploreSchedules(true)
	for t := 0; t < nthreads; t++ {
		wg.Add(1)
		go func(t int) {
			defer wg.Done()
			switch ops[t] {
			case 0:
				d.Register(subs[0])
			case 1:
				d.UnRegister(subs[0])
			case 2:
				d.Register(subs[1])
			case 3:
				if d.Dispatch(msgs[t%2], &verifStream{}) == nil {
					mu.Lock()
					dispatched++
					mu.Unlock()
				}
			}
		}(t)
	}
	wg.Wait()
	vrt.ExploreSchedules(false)
	vrt.Assert(calls[1] == 0, "never-handed-to-a-subscriber-of-another-type")
	vrt.Assert(calls[0] <= dispatched, "handed-at-most-once-per-dispatched-message")
	vrt.Cover("some-dispatch-delivered", calls[0] > 0)
}

func VerifC20Concurrent()         { verifC20Concurrent(2) }
func VerifC20ConcurrentThorough() { verifC20Concurrent(3) }

func VerifC20CrcSpec()          { verifC20CrcSpec() }
func VerifC20RoundTrip()        { verifC20RoundTrip(6) }
func VerifC20Corrupt()          { verifC20Corrupt(6) }
func VerifC20Dispatch()         { verifC20Dispatch(2) }
func VerifC20DispatchThorough() { verifC20Dispatch(3) }
