package p2p

import (
	"testing"

	"github.com/xuperchain/xupercore/zzverif/vrt"
)

func TestVerifReplay(t *testing.T) {
	vrt.RunReplay(t, map[string]func(){
		"VerifC20RoundTrip":          VerifC20RoundTrip,
		"VerifC20Corrupt":            VerifC20Corrupt,
		"VerifC20CrcSpec":            VerifC20CrcSpec,
		"VerifC20Dispatch":           VerifC20Dispatch,
		"VerifC20Concurrent":         VerifC20Concurrent,
		"VerifC20ConcurrentThorough": VerifC20ConcurrentThorough,
		"VerifC20DispatchThorough":   VerifC20DispatchThorough,
	})
}
