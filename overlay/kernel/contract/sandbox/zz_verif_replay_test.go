package sandbox

import (
	"testing"

	"github.com/xuperchain/xupercore/zzverif/vrt"
)

func TestVerifReplay(t *testing.T) {
	vrt.RunReplay(t, map[string]func(){
		"VerifC10Quick":      VerifC10Quick,
		"VerifC10Thorough":   VerifC10Thorough,
		"VerifC10Three":      VerifC10Three,
		"VerifC10Scan3":      VerifC10Scan3,
		"VerifC10UtxoReplay": VerifC10UtxoReplay,
	})
}
