package sandbox

// Harness for property C10 (sandbox semantics). Injected by overlay from /verif.

import (
	"math/big"

	"github.com/xuperchain/xupercore/kernel/contract"
	"github.com/xuperchain/xupercore/kernel/ledger"
	"github.com/xuperchain/xupercore/protos"
	"github.com/xuperchain/xupercore/zzverif/vrt"
)

// verifBacking answers like the real XModel: a live key has a version, a
// deleted key is found in the recycle table with the delete marker as value,
// a never-written key yields an empty version and no error; scans see live
// keys only, in key order.
type verifBacking struct {
	bucket string
	keys   []byte // sorted
	state  []int  // 0 never written, 1 live, 2 deleted
	vals   []byte
}

func (b *verifBacking) Get(bucket string, key []byte) (*ledger.VersionedData, error) {
	if bucket == b.bucket && len(key) == 1 {
		for i, k := range b.keys {
			if k == key[0] && b.state[i] != 0 {
				v := []byte{b.vals[i]}
				if b.state[i] == 2 {
					v = []byte(DelFlag)
				}
				return &ledger.VersionedData{PureData: &ledger.PureData{Bucket: bucket, Key: []byte{k}, Value: v}, RefTxid: []byte{'t', k}, RefOffset: 0}, nil
			}
		}
	}
	return &ledger.VersionedData{PureData: &ledger.PureData{Bucket: bucket, Key: key}}, nil
}

type verifBackIter struct {
	items []*ledger.VersionedData
	pos   int
}

func (it *verifBackIter) Key() []byte                  { return it.items[it.pos].PureData.Key }
func (it *verifBackIter) Value() *ledger.VersionedData { return it.items[it.pos] }
func (it *verifBackIter) Next() bool                   { it.pos++; return it.pos < len(it.items) }
func (it *verifBackIter) Error() error                 { return nil }
func (it *verifBackIter) Close()                       {}

func (b *verifBacking) Select(bucket string, startKey []byte, endKey []byte) (ledger.XMIterator, error) {
	it := &verifBackIter{pos: -1}
	if bucket != b.bucket {
		return it, nil
	}
	for i, k := range b.keys {
		if b.state[i] != 1 {
			continue
		}
		if len(startKey) == 1 && k < startKey[0] {
			continue
		}
		if len(endKey) == 1 && k >= endKey[0] {
			continue
		}
		it.items = append(it.items, &ledger.VersionedData{PureData: &ledger.PureData{Bucket: bucket, Key: []byte{k}, Value: []byte{b.vals[i]}}, RefTxid: []byte{'t', k}})
	}
	return it, nil
}

type verifRef struct {
	live bool
	val  byte
}

// verifC10: a symbolic program of L operations over one bucket with keys
// 'a'..'d' ('d' is never in the backing state), symbolic keys, values and scan
// bounds, checked against a map-based reference semantics.
func verifC10(L int, replay bool) { verifC10Shaped(L, replay, nil) }

// verifC10Shaped: as verifC10, with the operation kinds allowed at each step restricted by shape
// (nil: all four kinds at every step).
func verifC10Shaped(L int, replay bool, shape [][]int) {
	const bucket = "b"
	back := &verifBacking{bucket: bucket, keys: []byte{'a', 'b', 'c'}}
	ref := map[byte]verifRef{}
	for i, k := range back.keys {
		st := vrt.Choice("backing", 3)
		v := byte(vrt.Int("bval"+string([]byte{k}), 1, 255))
		back.state = append(back.state, st)
		back.vals = append(back.vals, v)
		if st == 1 {
			ref[k] = verifRef{true, v}
		}
		_ = i
	}
	xc := NewXModelCache(&contract.SandboxConfig{XMReader: back})
	touched := map[byte]bool{} // keys whose presence/value influenced a result, or that were written
	written := map[byte]bool{}
	var prog []verifOp
	var trace []verifObs

	for step := 0; step < L; step++ {
		op := 0
		if shape != nil {
			op = shape[step][vrt.Choice("op", len(shape[step]))]
		} else {
			op = vrt.Choice("op", 4)
		}
		k := byte(vrt.Int("key", 'a', 'd'))
		switch op {
		case 0: // Get
			prog = append(prog, verifOp{kind: 0, k: k})
			got, err := xc.Get(bucket, []byte{k})
			if err == nil && len(got) == 1 {
				trace = append(trace, verifObs{true, k, got[0]})
			} else {
				trace = append(trace, verifObs{false, k, 0})
			}
			r := ref[k]
			vrt.Cover("get-live", err == nil)
			vrt.Cover("get-missing", err != nil)
			vrt.Assert((err == nil) == r.live, "get-sees-latest-write-or-backing-presence")
			if err == nil && r.live {
				vrt.Assert(len(got) == 1 && got[0] == r.val, "get-sees-latest-write-or-backing-value")
			}
			touched[k] = true
		case 1: // Put
			v := byte(vrt.Int("val", 1, 255))
			prog = append(prog, verifOp{kind: 1, k: k, v: v})
			err := xc.Put(bucket, []byte{k}, []byte{v})
			vrt.Assert(err == nil, "put-succeeds")
			ref[k] = verifRef{true, v}
			touched[k] = true
			written[k] = true
		case 2: // Del
			prog = append(prog, verifOp{kind: 2, k: k})
			err := xc.Del(bucket, []byte{k})
			vrt.Assert(err == nil, "del-succeeds")
			ref[k] = verifRef{false, 0}
			touched[k] = true
			written[k] = true
		case 3: // Select [lo,hi) with early stop
			lo := byte(vrt.Int("lo", 'a', 'e'))
			hi := byte(vrt.Int("hi", 'a', 'e'))
			vrt.Assume(lo <= hi)
			stop := vrt.Choice("stop-after", 3) // 0: exhaust; n: stop after n items
			prog = append(prog, verifOp{kind: 3, lo: lo, hi: hi, stop: stop})
			it, err := xc.Select(bucket, []byte{lo}, []byte{hi})
			vrt.Assert(err == nil, "select-succeeds")
			var want []byte
			for c := byte('a'); c <= 'd'; c++ {
				if c >= lo && c < hi && ref[c].live {
					want = append(want, c)
				}
			}
			n := 0
			for it.Next() {
				vrt.Known("scan-yields-deleted-key", written[it.Key()[0]] && !ref[it.Key()[0]].live)
				vrt.Known("scan-yields-phantom-key", !written[it.Key()[0]] && !ref[it.Key()[0]].live)
				if len(it.Key()) == 1 && len(it.Value()) == 1 {
					trace = append(trace, verifObs{true, it.Key()[0], it.Value()[0]})
				}
				vrt.Assert(n < len(want), "scan-yields-no-extra-key")
				if n < len(want) {
					vrt.Assert(len(it.Key()) == 1 && it.Key()[0] == want[n], "scan-yields-live-keys-in-order")
					vrt.Assert(len(it.Value()) == 1 && it.Value()[0] == ref[want[n]].val, "scan-yields-current-value")
					touched[want[n]] = true
				}
				n++
				if stop != 0 && n >= stop {
					break
				}
			}
			if stop == 0 || n < stop {
				vrt.Assert(n == len(want), "scan-yields-every-live-key")
				vrt.Cover("scan-exhausted", true)
			}
			it.Close()
		}
	}

	// read/write set
	rw := xc.RWSet()
	inR := map[byte]bool{}
	for _, r := range rw.RSet {
		if r.PureData.Bucket == bucket && len(r.PureData.Key) == 1 {
			inR[r.PureData.Key[0]] = true
		}
	}
	for c := byte('a'); c <= 'd'; c++ {
		vrt.Assert(!touched[c] || inR[c], "read-set-holds-every-key-read-written-or-scanned")
	}
	seenW := map[byte]bool{}
	for _, wv := range rw.WSet {
		if wv.Bucket != bucket || len(wv.Key) != 1 {
			continue
		}
		c := wv.Key[0]
		vrt.Assert(!seenW[c], "write-set-has-one-entry-per-key")
		seenW[c] = true
		vrt.Assert(written[c], "write-set-holds-only-written-keys")
		vrt.Assert(inR[c], "every-written-key-is-in-the-read-set")
		if ref[c].live {
			vrt.Assert(len(wv.Value) == 1 && wv.Value[0] == ref[c].val, "write-set-holds-final-value")
		} else {
			vrt.Assert(IsDelFlag(wv.Value), "write-set-holds-delete-marker-for-deleted-key")
		}
	}
	for c := byte('a'); c <= 'd'; c++ {
		vrt.Assert(!written[c] || seenW[c], "write-set-holds-every-written-key")
	}
	if !replay {
		return
	}
	// re-run the same calls over the read set alone (what verification does)
	xc2 := NewXModelCache(&contract.SandboxConfig{XMReader: XMReaderFromRWSet(rw)})
	var trace2 []verifObs
	for _, o := range prog {
		switch o.kind {
		case 0:
			got, err := xc2.Get(bucket, []byte{o.k})
			if err == nil && len(got) == 1 {
				trace2 = append(trace2, verifObs{true, o.k, got[0]})
			} else {
				trace2 = append(trace2, verifObs{false, o.k, 0})
			}
		case 1:
			xc2.Put(bucket, []byte{o.k}, []byte{o.v})
		case 2:
			xc2.Del(bucket, []byte{o.k})
		case 3:
			it, err := xc2.Select(bucket, []byte{o.lo}, []byte{o.hi})
			vrt.Assert(err == nil, "replay-select-succeeds")
			n := 0
			for it.Next() {
				if len(it.Key()) == 1 && len(it.Value()) == 1 {
					trace2 = append(trace2, verifObs{true, it.Key()[0], it.Value()[0]})
				}
				n++
				if o.stop != 0 && n >= o.stop {
					break
				}
			}
			it.Close()
		}
	}
	vrt.Assert(len(trace) == len(trace2), "replay-over-read-set-same-number-of-results")
	if len(trace) == len(trace2) {
		for i := range trace {
			vrt.Assert(trace[i] == trace2[i], "replay-over-read-set-same-results")
		}
	}
	rw2 := xc2.RWSet()
	vrt.Assert(len(rw.WSet) == len(rw2.WSet), "replay-over-read-set-same-write-set-size")
	if len(rw.WSet) == len(rw2.WSet) {
		for i := range rw.WSet {
			vrt.Assert(string(rw.WSet[i].Key) == string(rw2.WSet[i].Key) && string(rw.WSet[i].Value) == string(rw2.WSet[i].Value), "replay-over-read-set-same-write-set")
		}
	}
}

type verifOp struct {
	kind   int
	k, v   byte
	lo, hi byte
	stop   int
}

type verifObs struct {
	ok   bool
	k, v byte
}

func VerifC10Quick()    { verifC10(2, true) }
func VerifC10Thorough() { verifC10(3, true) }
func VerifC10Three()    { verifC10(3, false) } // three operations without the re-run leg

// VerifC10Scan3: two reads / deletes, then a scan (runs of adjacent delete markers in the cache, the
// read set and the merged view), with the re-run leg
func VerifC10Scan3() { verifC10Shaped(3, true, [][]int{{0, 2}, {0, 2}, {3}}) }

// VerifC10UtxoReplay: the reader that serves a re-run its token inputs from the recorded list
// (NewUTXOReaderFromInput).  L recorded inputs with arbitrary amounts, up to 3 selections with arbitrary
// amounts: every selection must return the shortest run of recorded inputs that covers the amount,
// starting right behind the run the previous selection consumed - which is what the first run did.
func VerifC10UtxoReplay() {
	L := 1 + vrt.Choice("recorded-inputs", 5)
	var rec []*protos.TxInput
	amt := make([]int64, L)
	for i := 0; i < L; i++ {
		amt[i] = vrt.Int("amount", 1, 5)
		rec = append(rec, &protos.TxInput{RefTxid: []byte{byte('a' + i)}, RefOffset: int32(i), FromAddr: []byte("CT"), Amount: big.NewInt(amt[i]).Bytes()})
	}
	r := NewUTXOReaderFromInput(rec)
	next := 0 // oracle: index of the first recorded input not yet consumed
	calls := 1 + vrt.Choice("selections", 3)
	for c := 0; c < calls; c++ {
		need := vrt.Int("need", 1, 9)
		got, _, sum, err := r.SelectUtxo("CT", big.NewInt(need), true, false)
		// oracle: shortest run from next covering need
		var acc int64
		n := 0
		for next+n < L && acc < need {
			acc += amt[next+n]
			n++
		}
		if acc < need {
			vrt.Assert(err != nil, "selection-beyond-the-recorded-inputs-fails")
			return
		}
		vrt.Assert(err == nil, "covered-selection-succeeds")
		if err != nil {
			return
		}
		ok := len(got) == n && sum.Cmp(big.NewInt(acc)) == 0
		if ok {
			for i := range got {
				ok = ok && got[i] == rec[next+i]
			}
		}
		vrt.Assert(ok, "selection-is-the-next-run-of-recorded-inputs")
		vrt.Cover("third-selection", c == 2)
		next += n
	}
}
