package xuperos

// Harness for property C11, rule-change leg. Injected by overlay from /verif.
//
// A contract account with the confirmed rule "B and C" exists. A SetAccountAcl invocation is
// pre-executed through the real Chain.PreExec (real ACL kernel contract), assembled, signed by an
// arbitrary subset of {A, B, C} (signature stub as in C07) and verified by State.VerifyTx with the REAL
// ACL manager (rules read from the tip snapshot of the confirmed chain). It must be accepted exactly
// when the signers satisfy the rule in force on the confirmed chain - also when a properly authorised
// change of that rule is still pending in the pool.

import (
	"math/big"

	"github.com/xuperchain/xupercore/bcs/ledger/xledger/state/utxo/txhash"
	lpb "github.com/xuperchain/xupercore/bcs/ledger/xledger/xldgpb"
	xctx "github.com/xuperchain/xupercore/kernel/common/xcontext"
	"github.com/xuperchain/xupercore/kernel/contract"
	"github.com/xuperchain/xupercore/kernel/engines/xuperos/agent"
	"github.com/xuperchain/xupercore/kernel/engines/xuperos/common"
	"github.com/xuperchain/xupercore/kernel/permission/acl"
	actx "github.com/xuperchain/xupercore/kernel/permission/acl/context"
	aclu "github.com/xuperchain/xupercore/kernel/permission/acl/utils"
	"github.com/xuperchain/xupercore/lib/timer"
	"github.com/xuperchain/xupercore/protos"
	"github.com/xuperchain/xupercore/zzverif/vrt"
	"github.com/xuperchain/xupercore/zzverif/vrt/vcrypto"
	"github.com/xuperchain/xupercore/zzverif/vrt/vkit"
	"github.com/xuperchain/xupercore/zzverif/vrt/vlog"
)

const verifC11Account = "XC1111111111111111@c11"

func verifC11RuleChange() {
	vrt.InitPkg("github.com/xuperchain/xupercore/kernel/contract/manager")
	vrt.InitPkg("github.com/xuperchain/xupercore/kernel/contract/kernel")
	e := vkit.NewEnv("c11", vkit.Genesis("0", "9", "5"), nil)
	names := []string{"A", "B", "C"}
	st := vcrypto.Ideal(names)
	vrt.CryptoClient = st
	s, sc := e.NewStateCtx("live", st, nil)
	mgr, err := contract.CreateManager("default", &contract.ManagerConfig{Basedir: "/verifmem/c11/contract", BCName: "c11", Core: verifCore{},
		XMReader: s.CreateXMReader(), Config: &contract.ContractConfig{LogDriver: vlog.Nop{}, Xkernel: contract.XkernelConfig{Enable: true, Driver: "default"}}})
	vrt.Assert(err == nil, "contract-manager-created")
	if err != nil {
		return
	}
	sc.ContractMgr = mgr
	chain := &Chain{ctx: &common.ChainCtx{BCName: "c11", Ledger: e.L, State: s, Contract: mgr, Crypto: st}, log: vlog.Nop{}}
	chain.ctx.XLog = vlog.Nop{}
	chain.ctx.Timer = timer.NewXTimer()
	ac := &actx.AclCtx{BcName: "c11", Ledger: agent.NewLedgerAgent(chain.ctx), Contract: mgr}
	ac.XLog = vlog.Nop{}
	ac.Timer = timer.NewXTimer()
	aclMgr, err := acl.NewACLManager(ac)
	vrt.Assert(err == nil, "acl-manager-created")
	if err != nil {
		return
	}
	sc.AclMgr = aclMgr
	chain.ctx.Acl = aclMgr
	vrt.Assert(s.Play(e.Root.Blockid) == nil, "genesis-plays")
	// the account with the confirmed rule: weights B=1, C=1, threshold 2
	confirmed := []byte(`{"pm":{"rule":1,"acceptValue":2},"aksWeight":{"B":1,"C":1}}`)
	t0 := vkit.WithKey(vkit.Tx("t0", nil, nil), aclu.GetAccountBucket(), verifC11Account, nil, 0, confirmed)
	// and a contract "counter" owned by that account
	vkit.WithKey(t0, aclu.GetContract2AccountBucket(), "counter", nil, 0, []byte(verifC11Account))
	b1 := vkit.Block(e.Root.Blockid, 1, []*lpb.Transaction{vkit.Coinbase("cb1", "M", []byte{7}), t0})
	vrt.Assert(e.L.ConfirmBlock(b1, false).Succ && s.Play(b1.Blockid) == nil, "prior-state-built")

	rctx := &xctx.BaseCtx{XLog: vlog.Nop{}, Timer: timer.NewXTimer()}
	// submit: pre-execute SetAccountAcl(newRule), sign with the chosen signers, verify; admit if told to
	methodRule := false // the final submission targets the account's rule or a method rule of its contract
	submit := func(tag string, newRule string, signers [3]bool, feeIn *protos.TxInput, feeAmount int64, admit bool) (accepted bool, change *protos.TxInput) {
		var auth []string
		for k, in := range signers {
			if in {
				auth = append(auth, verifC11Account+"/"+names[k])
			}
		}
		reqs := []*protos.InvokeRequest{{ModuleName: "xkernel", ContractName: "$acl", MethodName: "SetAccountAcl",
			Args: map[string][]byte{"account_name": []byte(verifC11Account), "acl": []byte(newRule)}}}
		if methodRule && !admit {
			reqs = []*protos.InvokeRequest{{ModuleName: "xkernel", ContractName: "$acl", MethodName: "SetMethodAcl",
				Args: map[string][]byte{"contract_name": []byte("counter"), "method_name": []byte("increase"), "acl": []byte(newRule)}}}
		}
		resp, perr := chain.PreExec(rctx, reqs, "A", auth)
		vrt.Assert(perr == nil, "pre-execution-succeeds")
		if perr != nil {
			return false, nil
		}
		tx := &lpb.Transaction{Version: 3, Initiator: "A", Nonce: tag, Timestamp: 7, Desc: []byte(tag), AuthRequire: auth,
			ContractRequests: resp.Requests, TxInputsExt: resp.Inputs, TxOutputsExt: resp.Outputs,
			TxInputs:  []*protos.TxInput{feeIn},
			TxOutputs: []*protos.TxOutput{vkit.Out("$", big.NewInt(resp.GasUsed), 0), vkit.Out("A", big.NewInt(feeAmount-resp.GasUsed), 0)}}
		digest, derr := txhash.MakeTxDigestHash(tx)
		vrt.Assert(derr == nil, "digest-computed")
		tx.InitiatorSigns = []*protos.SignatureInfo{{PublicKey: "K0", Sign: st.Sign(0, digest)}}
		for k, in := range signers {
			if in {
				tx.AuthRequireSigns = append(tx.AuthRequireSigns, &protos.SignatureInfo{PublicKey: st.KeyString(k), Sign: st.Sign(k, digest)})
			}
		}
		tx.Txid, _ = txhash.MakeTransactionID(tx)
		ok, verr := s.VerifyTx(tx)
		accepted = ok && verr == nil
		if accepted && admit {
			vrt.Assert(s.DoTx(tx) == nil, "verified-transaction-is-admitted")
			change = vkit.In(tx.Txid, 1, "A", big.NewInt(feeAmount-resp.GasUsed))
		}
		return accepted, change
	}
	takeover := `{"pm":{"rule":1,"acceptValue":1},"aksWeight":{"A":1}}`
	feeIn, feeAmount := vkit.In(e.RootTx.Txid, 0, "A", big.NewInt(9)), int64(9)
	pendingFirst := vrt.Choice("pending-change-first", 2) == 1
	if pendingFirst {
		// B and C hand the account over to A; the change is admitted to the pool, not confirmed yet
		ok, change := submit("p1", takeover, [3]bool{false, true, true}, feeIn, feeAmount, true)
		vrt.Assert(ok && change != nil, "properly-authorised-change-is-accepted")
		if !ok || change == nil {
			return
		}
		feeIn, feeAmount = change, feeAmount-1
	}
	methodRule = vrt.Choice("target", 2) == 1
	var signers [3]bool
	for k := range signers {
		signers[k] = vrt.Bool("signer-" + names[k])
	}
	accepted, _ := submit("p2", `{"pm":{"rule":1,"acceptValue":1},"aksWeight":{"C":1}}`, signers, feeIn, feeAmount, false)
	want := signers[1] && signers[2] // the rule in force on the confirmed chain: B and C
	vrt.Cover("change-accepted", accepted)
	vrt.Cover("change-refused", !accepted)
	vrt.Assert(!accepted || want, "rule-change-accepted-only-if-the-confirmed-rule-is-satisfied")
	vrt.Assert(accepted || !want, "rule-change-satisfying-the-confirmed-rule-is-accepted")
}

func VerifC11RuleChange() { verifC11RuleChange() }

// verifC07Invoke: a kernel contract method carries the confirmed method rule "B" (weight 1, threshold 1).
// An invocation initiated by A with an arbitrary subset of {B, C} as further signers is pre-executed,
// assembled, signed and verified with the real ACL manager: it is accepted exactly when B signs
// (nothing is invoked without the signatures the method's rule demands).
func verifC07Invoke() {
	vrt.InitPkg("github.com/xuperchain/xupercore/kernel/contract/manager")
	vrt.InitPkg("github.com/xuperchain/xupercore/kernel/contract/kernel")
	e := vkit.NewEnv("c07i", vkit.Genesis("0", "9", "5"), nil)
	names := []string{"A", "B", "C"}
	st := vcrypto.Ideal(names)
	vrt.CryptoClient = st
	s, sc := e.NewStateCtx("live", st, nil)
	mgr, err := contract.CreateManager("default", &contract.ManagerConfig{Basedir: "/verifmem/c07i/contract", BCName: "c07i", Core: verifCore{},
		XMReader: s.CreateXMReader(), Config: &contract.ContractConfig{LogDriver: vlog.Nop{}, Xkernel: contract.XkernelConfig{Enable: true, Driver: "default"}}})
	vrt.Assert(err == nil, "contract-manager-created")
	if err != nil {
		return
	}
	sc.ContractMgr = mgr
	chain := &Chain{ctx: &common.ChainCtx{BCName: "c07i", Ledger: e.L, State: s, Contract: mgr, Crypto: st}, log: vlog.Nop{}}
	chain.ctx.XLog = vlog.Nop{}
	chain.ctx.Timer = timer.NewXTimer()
	ac := &actx.AclCtx{BcName: "c07i", Ledger: agent.NewLedgerAgent(chain.ctx), Contract: mgr}
	ac.XLog = vlog.Nop{}
	ac.Timer = timer.NewXTimer()
	aclMgr, err := acl.NewACLManager(ac)
	vrt.Assert(err == nil, "acl-manager-created")
	if err != nil {
		return
	}
	sc.AclMgr = aclMgr
	vrt.Assert(s.Play(e.Root.Blockid) == nil, "genesis-plays")
	mgr.GetKernRegistry().RegisterKernMethod("$vault", "open", func(ctx contract.KContext) (*contract.Response, error) {
		if err := ctx.Put("vault", []byte("door"), []byte("open")); err != nil {
			return nil, err
		}
		return &contract.Response{Status: 200}, nil
	})
	// the confirmed method rule; with guarded == false the method has no rule and anybody may call it
	guarded := vrt.Choice("method-has-a-rule", 2) == 1
	t0 := vkit.Tx("t0", nil, nil)
	if guarded {
		vkit.WithKey(t0, aclu.GetContractBucket(), aclu.MakeContractMethodKey("$vault", "open"), nil, 0, []byte(`{"pm":{"rule":1,"acceptValue":1},"aksWeight":{"B":1}}`))
	} else {
		vkit.WithKey(t0, "other", "k", nil, 0, []byte("v"))
	}
	b1 := vkit.Block(e.Root.Blockid, 1, []*lpb.Transaction{vkit.Coinbase("cb1", "M", []byte{7}), t0})
	vrt.Assert(e.L.ConfirmBlock(b1, false).Succ && s.Play(b1.Blockid) == nil, "prior-state-built")

	signers := [3]bool{false, vrt.Bool("signer-B"), vrt.Bool("signer-C")}
	var auth []string
	for k, in := range signers {
		if in {
			auth = append(auth, names[k])
		}
	}
	rctx := &xctx.BaseCtx{XLog: vlog.Nop{}, Timer: timer.NewXTimer()}
	reqs := []*protos.InvokeRequest{{ModuleName: "xkernel", ContractName: "$vault", MethodName: "open"}}
	resp, perr := chain.PreExec(rctx, reqs, "A", auth)
	vrt.Assert(perr == nil, "pre-execution-succeeds")
	if perr != nil {
		return
	}
	tx := &lpb.Transaction{Version: 3, Initiator: "A", Nonce: "n", Timestamp: 7, Desc: []byte("invoke"), AuthRequire: auth,
		ContractRequests: resp.Requests, TxInputsExt: resp.Inputs, TxOutputsExt: resp.Outputs,
		TxInputs:  []*protos.TxInput{vkit.In(e.RootTx.Txid, 0, "A", big.NewInt(9))},
		TxOutputs: []*protos.TxOutput{vkit.Out("A", big.NewInt(9), 0)}}
	digest, derr := txhash.MakeTxDigestHash(tx)
	vrt.Assert(derr == nil, "digest-computed")
	tx.InitiatorSigns = []*protos.SignatureInfo{{PublicKey: "K0", Sign: st.Sign(0, digest)}}
	for k, in := range signers {
		if in {
			tx.AuthRequireSigns = append(tx.AuthRequireSigns, &protos.SignatureInfo{PublicKey: st.KeyString(k), Sign: st.Sign(k, digest)})
		}
	}
	tx.Txid, _ = txhash.MakeTransactionID(tx)
	ok, verr := s.VerifyTx(tx)
	accepted := ok && verr == nil
	want := !guarded || signers[1]
	vrt.Cover("invocation-accepted", accepted)
	vrt.Cover("invocation-refused", !accepted)
	vrt.Assert(!accepted || want, "invocation-accepted-only-with-the-signers-the-method-rule-demands")
	vrt.Assert(accepted || !want, "invocation-with-the-demanded-signers-is-accepted")
}

func VerifC07Invoke() { verifC07Invoke() }
