package xuperos

// Harness for property C09. Injected by overlay from /verif.
//
// A kernel contract whose method is a small program of state operations (kinds, keys and values
// are solver-visible) is pre-executed through the real Chain.PreExec on the real contract manager /
// bridge / kernel VM / sandbox over the real state; the response is assembled into a signed
// transaction (signature stub as in C07), verified by State.VerifyTx and committed by State.DoTx.

import (
	"errors"
	"math/big"

	"github.com/xuperchain/xupercore/bcs/ledger/xledger/state/utxo/txhash"
	lpb "github.com/xuperchain/xupercore/bcs/ledger/xledger/xldgpb"
	xctx "github.com/xuperchain/xupercore/kernel/common/xcontext"
	"github.com/xuperchain/xupercore/kernel/contract"
	bpb "github.com/xuperchain/xupercore/kernel/contract/bridge/pb"
	_ "github.com/xuperchain/xupercore/kernel/contract/kernel"
	_ "github.com/xuperchain/xupercore/kernel/contract/manager"
	"github.com/xuperchain/xupercore/kernel/engines/xuperos/common"
	kledger "github.com/xuperchain/xupercore/kernel/ledger"
	"github.com/xuperchain/xupercore/lib/timer"
	"github.com/xuperchain/xupercore/protos"
	"github.com/xuperchain/xupercore/zzverif/vrt"
	"github.com/xuperchain/xupercore/zzverif/vrt/vcrypto"
	"github.com/xuperchain/xupercore/zzverif/vrt/vkit"
	"github.com/xuperchain/xupercore/zzverif/vrt/vlog"
)

type verifCore struct{}

func (verifCore) GetAccountAddresses(string) ([]string, error) { return nil, nil }
func (verifCore) VerifyContractPermission(string, []string, string, string) (bool, error) {
	return true, nil
}
func (verifCore) VerifyContractOwnerPermission(string, []string) error { return nil }
func (verifCore) QueryTransaction([]byte) (*bpb.Transaction, error) {
	return nil, errors.New("not found")
}
func (verifCore) QueryBlock([]byte) (kledger.BlockHandle, error) { return nil, errors.New("not found") }

type verifACL struct{}

func (verifACL) GetAccountACL(string) (*protos.Acl, error)                { return nil, nil }
func (verifACL) GetContractMethodACL(string, string) (*protos.Acl, error) { return nil, nil }
func (verifACL) GetAccountAddresses(string) ([]string, error)             { return nil, nil }

type verifOp struct {
	kind int // 0 get, 1 put, 2 delete, 3 charge a fee, 4 fail
	key  string
}

var verifKeys = []string{"k1", "k2", "k3"}

func verifC09(nops int) {
	vrt.InitPkg("github.com/xuperchain/xupercore/kernel/contract/manager")
	vrt.InitPkg("github.com/xuperchain/xupercore/kernel/contract/kernel")
	e := vkit.NewEnv("c09", vkit.Genesis("0", "9", "5"), nil)
	st := vcrypto.Ideal([]string{"A", "B", "C"})
	vrt.CryptoClient = st
	s, sc := e.NewStateCtx("live", st, verifACL{})
	mgr, err := contract.CreateManager("default", &contract.ManagerConfig{Basedir: "/verifmem/c09/contract", BCName: "c09", Core: verifCore{},
		XMReader: s.CreateXMReader(), Config: &contract.ContractConfig{LogDriver: vlog.Nop{}, Xkernel: contract.XkernelConfig{Enable: true, Driver: "default"}}})
	vrt.Assert(err == nil, "contract-manager-created")
	if err != nil {
		return
	}
	sc.ContractMgr = mgr
	vrt.Assert(s.Play(e.Root.Blockid) == nil, "genesis-plays")
	// prior state: k1 = "one" written by a confirmed transaction, k2 and k3 never written
	t0 := vkit.WithKey(vkit.Tx("t0", nil, nil), "c09", "k1", nil, 0, []byte("one"))
	b1 := vkit.Block(e.Root.Blockid, 1, []*lpb.Transaction{vkit.Coinbase("cb1", "M", []byte{7}), t0})
	vrt.Assert(e.L.ConfirmBlock(b1, false).Succ && s.Play(b1.Blockid) == nil, "prior-state-built")

	// the program
	ops := make([]verifOp, nops)
	for i := range ops {
		ops[i] = verifOp{kind: vrt.Choice("op", 5), key: verifKeys[vrt.Choice("key", len(verifKeys))]}
	}
	fee := vrt.Int("fee", 0, 3)
	program := func(ctx contract.KContext) (*contract.Response, error) {
		v := ctx.Args()["v"]
		for i, op := range ops {
			switch op.kind {
			case 0:
				ctx.Get("c09", []byte(op.key))
			case 1:
				if err := ctx.Put("c09", []byte(op.key), append([]byte{byte('a' + i)}, v...)); err != nil {
					return nil, err
				}
			case 2:
				if err := ctx.Del("c09", []byte(op.key)); err != nil {
					return nil, err
				}
			case 3:
				ctx.AddResourceUsed(contract.Limits{XFee: fee})
			case 4:
				return nil, errors.New("program fails")
			}
		}
		return &contract.Response{Status: 200, Body: []byte("ok")}, nil
	}
	mgr.GetKernRegistry().RegisterKernMethod("$c09", "run", program)

	chain := &Chain{ctx: &common.ChainCtx{BCName: "c09", Ledger: e.L, State: s, Contract: mgr, Crypto: st}, log: vlog.Nop{}}
	chain.ctx.XLog = vlog.Nop{}
	chain.ctx.Timer = timer.NewXTimer()
	rctx := &xctx.BaseCtx{XLog: vlog.Nop{}, Timer: timer.NewXTimer()}
	val := vrt.Bytes("v", 1)
	reqs := []*protos.InvokeRequest{{ModuleName: "xkernel", ContractName: "$c09", MethodName: "run", Args: map[string][]byte{"v": val}}}
	before := verifC09Read(s)
	resp, perr := chain.PreExec(rctx, reqs, "A", nil)
	fails := false
	for _, op := range ops {
		if op.kind == 4 {
			fails = true
		}
	}
	vrt.Cover("pre-execution-succeeds", perr == nil)
	vrt.Cover("pre-execution-fails", perr != nil)
	vrt.Assert((perr != nil) == fails, "pre-execution-fails-iff-the-program-fails")
	if perr != nil {
		verifC09Same(before, verifC09Read(s), "failed-call-changes-nothing")
		return
	}
	// reference model of the program over the prior state
	want := map[string]string{}
	for k, v := range before {
		want[k] = v
	}
	used := int64(0)
	for i, op := range ops {
		switch op.kind {
		case 1:
			want[op.key] = string(append([]byte{byte('a' + i)}, val...))
		case 2:
			want[op.key] = ""
		case 3:
			used += fee
		}
	}
	vrt.Assert(resp.GasUsed == used, "reported-gas-is-what-the-program-charged")
	// assemble, sign, verify, commit
	pay := vrt.Int("pay", 0, 9)
	tx := &lpb.Transaction{Version: 3, Initiator: "A", Nonce: "n1", Timestamp: 7, Desc: []byte("c09"),
		ContractRequests: resp.Requests, TxInputsExt: resp.Inputs, TxOutputsExt: resp.Outputs,
		TxInputs: []*protos.TxInput{vkit.In(e.RootTx.Txid, 0, "A", big.NewInt(9))}}
	if pay > 0 {
		tx.TxOutputs = append(tx.TxOutputs, vkit.Out("$", big.NewInt(pay), 0))
	}
	if pay < 9 {
		tx.TxOutputs = append(tx.TxOutputs, vkit.Out("A", big.NewInt(9-pay), 0))
	}
	digest, derr := txhash.MakeTxDigestHash(tx)
	vrt.Assert(derr == nil, "digest-computed")
	tx.InitiatorSigns = []*protos.SignatureInfo{{PublicKey: "K0", Sign: st.Sign(0, digest)}}
	tx.Txid, _ = txhash.MakeTransactionID(tx)
	ok, verr := s.VerifyTx(tx)
	accepted := ok && verr == nil
	vrt.Cover("verified", accepted)
	vrt.Assert(accepted == (pay >= used), "pre-executed-transaction-verifies-iff-it-pays-for-what-it-used")
	if !accepted {
		return
	}
	vrt.Assert(s.DoTx(tx) == nil, "verified-transaction-is-admitted")
	got := verifC09Read(s)
	for _, k := range verifKeys {
		vrt.Assert(got[k] == want[k], "committed-state-is-the-pre-executed-write-set")
	}
}

// verifC09Read: the live value of every key of interest ("" = absent or deleted).
func verifC09Read(s interface {
	CreateXMReader() kledger.XMReader
}) map[string]string {
	out := map[string]string{}
	rd := s.CreateXMReader()
	for _, k := range verifKeys {
		v, err := rd.Get("c09", []byte(k))
		if err != nil || v == nil || v.PureData == nil || (len(v.PureData.Value) == 1 && v.PureData.Value[0] == 0) {
			out[k] = ""
			continue
		}
		out[k] = string(v.PureData.Value)
	}
	return out
}

func verifC09Same(a, b map[string]string, label string) {
	for _, k := range verifKeys {
		vrt.Assert(a[k] == b[k], label)
	}
}

func VerifC09Quick() { verifC09(2) }
