package xuperos

// Harness for property C09. Injected by overlay from /verif.
//
// A kernel contract whose method is a small program of state operations (kinds, keys and values
// are solver-visible) is pre-executed through the real Chain.PreExec on the real contract manager /
// bridge / kernel VM / sandbox over the real state; the response is assembled into a signed
// transaction (signature stub as in C07), verified by State.VerifyTx and committed by State.DoTx.

import (
	"errors"
	"math/big"

	"github.com/xuperchain/xupercore/bcs/ledger/xledger/state/utxo/txhash"
	lpb "github.com/xuperchain/xupercore/bcs/ledger/xledger/xldgpb"
	xctx "github.com/xuperchain/xupercore/kernel/common/xcontext"
	"github.com/xuperchain/xupercore/kernel/contract"
	bpb "github.com/xuperchain/xupercore/kernel/contract/bridge/pb"
	_ "github.com/xuperchain/xupercore/kernel/contract/kernel"
	_ "github.com/xuperchain/xupercore/kernel/contract/manager"
	"github.com/xuperchain/xupercore/kernel/engines/xuperos/common"
	kledger "github.com/xuperchain/xupercore/kernel/ledger"
	"github.com/xuperchain/xupercore/lib/timer"
	"github.com/xuperchain/xupercore/protos"
	"github.com/xuperchain/xupercore/zzverif/vrt"
	"github.com/xuperchain/xupercore/zzverif/vrt/vcrypto"
	"github.com/xuperchain/xupercore/zzverif/vrt/vkit"
	"github.com/xuperchain/xupercore/zzverif/vrt/vlog"
)

type verifCore struct{}

func (verifCore) GetAccountAddresses(string) ([]string, error) { return nil, nil }
func (verifCore) VerifyContractPermission(string, []string, string, string) (bool, error) {
	return true, nil
}
func (verifCore) VerifyContractOwnerPermission(string, []string) error { return nil }
func (verifCore) QueryTransaction([]byte) (*bpb.Transaction, error) {
	return nil, errors.New("not found")
}
func (verifCore) QueryBlock([]byte) (kledger.BlockHandle, error) { return nil, errors.New("not found") }

type verifACL struct{}

func (verifACL) GetAccountACL(string) (*protos.Acl, error)                { return nil, nil }
func (verifACL) GetContractMethodACL(string, string) (*protos.Acl, error) { return nil, nil }
func (verifACL) GetAccountAddresses(string) ([]string, error)             { return nil, nil }

type verifOp struct {
	kind int // 0 get, 1 put, 2 delete, 3 charge a fee, 4 fail, 5 range scan recorded in k3, 6 nested call, 7 transfer from the contract's address
	key  string
}

var verifKeys = []string{"k1", "k2", "k3"}

func verifC09(nops int) {
	vrt.InitPkg("github.com/xuperchain/xupercore/kernel/contract/manager")
	vrt.InitPkg("github.com/xuperchain/xupercore/kernel/contract/kernel")
	e := vkit.NewEnv("c09", vkit.Genesis("0", "9", "5"), nil)
	st := vcrypto.Ideal([]string{"A", "B", "C"})
	vrt.CryptoClient = st
	s, sc := e.NewStateCtx("live", st, verifACL{})
	mgr, err := contract.CreateManager("default", &contract.ManagerConfig{Basedir: "/verifmem/c09/contract", BCName: "c09", Core: verifCore{},
		XMReader: s.CreateXMReader(), Config: &contract.ContractConfig{LogDriver: vlog.Nop{}, Xkernel: contract.XkernelConfig{Enable: true, Driver: "default"}}})
	vrt.Assert(err == nil, "contract-manager-created")
	if err != nil {
		return
	}
	sc.ContractMgr = mgr
	vrt.Assert(s.Play(e.Root.Blockid) == nil, "genesis-plays")
	// prior state: k1 = "one" written by a confirmed transaction, k2 written and deleted again by
	// confirmed transactions (a tombstone with a current version), k3 never written
	t0 := vkit.WithKey(vkit.Tx("t0", nil, nil), "c09", "k1", nil, 0, []byte("one"))
	vkit.WithKey(t0, "c09", "k2", nil, 0, []byte("two"))
	tdel := vkit.WithKey(vkit.Tx("tdel", nil, nil), "c09", "k2", []byte("t0"), 1, []byte{0})
	// the contract's address CT holds two outputs of 2 tokens; A keeps 5 to pay fees with
	t1 := vkit.Tx("t1", []*protos.TxInput{vkit.In(e.RootTx.Txid, 0, "A", big.NewInt(9))}, []*protos.TxOutput{vkit.Out("CT", big.NewInt(2), 0), vkit.Out("CT", big.NewInt(2), 0), vkit.Out("A", big.NewInt(5), 0)})
	b1 := vkit.Block(e.Root.Blockid, 1, []*lpb.Transaction{vkit.Coinbase("cb1", "M", []byte{7}), t0, t1})
	vrt.Assert(e.L.ConfirmBlock(b1, false).Succ && s.Play(b1.Blockid) == nil, "prior-state-built")
	b2 := vkit.Block(b1.Blockid, 2, []*lpb.Transaction{vkit.Coinbase("cb2", "M", []byte{7}), tdel})
	vrt.Assert(e.L.ConfirmBlock(b2, false).Succ && s.Play(b2.Blockid) == nil, "prior-state-built")

	// the program
	ops := make([]verifOp, nops)
	for i := range ops {
		ops[i] = verifOp{kind: vrt.Choice("op", 8)}
		if ops[i].kind <= 2 {
			ops[i].key = verifKeys[vrt.Choice("key", len(verifKeys))]
		}
	}
	fee := []int64{0, 2}[vrt.Choice("fee", 2)]
	program := func(ctx contract.KContext) (*contract.Response, error) {
		v := ctx.Args()["v"]
		for i, op := range ops {
			switch op.kind {
			case 0:
				ctx.Get("c09", []byte(op.key))
			case 1:
				if err := ctx.Put("c09", []byte(op.key), append([]byte{byte('a' + i)}, v...)); err != nil {
					return nil, err
				}
			case 2:
				if err := ctx.Del("c09", []byte(op.key)); err != nil {
					return nil, err
				}
			case 3:
				ctx.AddResourceUsed(contract.Limits{XFee: fee})
			case 4:
				return nil, errors.New("program fails")
			case 5: // scan [k1, k3) and record how many live keys were seen
				it, err := ctx.Select("c09", []byte("k1"), []byte("k3"))
				if err != nil {
					return nil, err
				}
				n := 0
				for it.Next() {
					n++
				}
				it.Close()
				if err := ctx.Put("c09", []byte("k3"), []byte{'n', byte('0' + n)}); err != nil {
					return nil, err
				}
			case 7: // the contract pays 1 token from its own address to B
				if err := ctx.Transfer("CT", "B", big.NewInt(1)); err != nil {
					return nil, err
				}
			case 6: // nested call into another kernel contract
				r, err := ctx.Call("xkernel", "$c09sub", "put", map[string][]byte{"v": v})
				if err != nil {
					return nil, err
				}
				if r.Status != 200 {
					return nil, errors.New("nested call failed")
				}
			}
		}
		return &contract.Response{Status: 200, Body: []byte("ok")}, nil
	}
	mgr.GetKernRegistry().RegisterKernMethod("$c09", "run", program)
	mgr.GetKernRegistry().RegisterKernMethod("$c09", "noop", func(ctx contract.KContext) (*contract.Response, error) {
		return &contract.Response{Status: 200}, nil
	})
	mgr.GetKernRegistry().RegisterKernMethod("$c09sub", "put", func(ctx contract.KContext) (*contract.Response, error) {
		if err := ctx.Put("c09", []byte("k2"), append([]byte("sub"), ctx.Args()["v"]...)); err != nil {
			return nil, err
		}
		ctx.AddResourceUsed(contract.Limits{XFee: 1})
		return &contract.Response{Status: 200}, nil
	})

	chain := &Chain{ctx: &common.ChainCtx{BCName: "c09", Ledger: e.L, State: s, Contract: mgr, Crypto: st}, log: vlog.Nop{}}
	chain.ctx.XLog = vlog.Nop{}
	chain.ctx.Timer = timer.NewXTimer()
	rctx := &xctx.BaseCtx{XLog: vlog.Nop{}, Timer: timer.NewXTimer()}
	val := vrt.Bytes("v", 1)
	reqs := []*protos.InvokeRequest{{ModuleName: "xkernel", ContractName: "$c09", MethodName: "run", Args: map[string][]byte{"v": val}}}
	before := verifC09Read(s)
	resp, perr := chain.PreExec(rctx, reqs, "A", nil)
	// the program fails at an explicit failure, or at a third transfer: the contract's address holds two
	// outputs, each transfer selects and locks one (the change is not spendable inside the same call)
	fails := false
	ntr := 0
	for _, op := range ops {
		if op.kind == 7 {
			ntr++
		}
		if op.kind == 4 || ntr > 2 {
			fails = true
		}
	}
	vrt.Cover("pre-execution-succeeds", perr == nil)
	vrt.Cover("pre-execution-fails", perr != nil)
	vrt.Assert((perr != nil) == fails, "pre-execution-fails-iff-the-program-fails")
	if perr != nil {
		verifC09Same(before, verifC09Read(s), "failed-call-changes-nothing")
		return
	}
	// reference model of the program over the prior state, as a function of the argument
	model := func(arg []byte) (map[string]string, int64) {
		want := map[string]string{}
		for k, v := range before {
			want[k] = v
		}
		used := int64(0)
		for i, op := range ops {
			switch op.kind {
			case 1:
				want[op.key] = string(append([]byte{byte('a' + i)}, arg...))
			case 2:
				want[op.key] = ""
			case 3:
				used += fee
			case 5:
				n := 0
				for _, k := range []string{"k1", "k2"} {
					if want[k] != "" {
						n++
					}
				}
				want["k3"] = string([]byte{'n', byte('0' + n)})
			case 6:
				// the fee the nested kernel method charges is not metered to the caller (bridge.Context.ResourceUsed:
				// "kernel contracts only count the VM's own consumption"); the model follows the code's metering
				want["k2"] = "sub" + string(arg)
			}
		}
		return want, used
	}
	want, used := model(val)
	otherArg := append([]byte("y"), val...)
	wantOther, _ := model(otherArg)
	argMatters := false
	for _, k := range verifKeys {
		if want[k] != wantOther[k] {
			argMatters = true
		}
	}
	vrt.Assert(resp.GasUsed == used, "reported-gas-is-what-the-program-charged")
	nwrites := 0
	// known-finding class: a nested kernel call whose callee charges more than what the caller itself
	// charges after the call (pre-execution declares the caller's own consumption only; at verification
	// the callee runs under declared-minus-consumed-so-far)
	nestedStarved := false
	for i, op := range ops {
		if op.kind == 6 {
			after := int64(0)
			for _, o := range ops[i+1:] {
				if o.kind == 3 {
					after += fee
				}
			}
			if after < 1 {
				nestedStarved = true
			}
		}
	}
	nwrites = len(resp.Outputs)
	vrt.Cover("program-with-scan", ops[0].kind == 5 || ops[len(ops)-1].kind == 5)
	vrt.Cover("program-with-nested-call", ops[0].kind == 6 || ops[len(ops)-1].kind == 6)
	// assemble, sign, verify, commit
	pay := []int64{0, 1, 2, 3, 5}[vrt.Choice("pay", 5)]
	tx := &lpb.Transaction{Version: 3, Initiator: "A", Nonce: "n1", Timestamp: 7, Desc: []byte("c09"),
		ContractRequests: resp.Requests, TxInputsExt: resp.Inputs, TxOutputsExt: resp.Outputs,
		TxInputs: []*protos.TxInput{vkit.In([]byte("t1"), 2, "A", big.NewInt(5))}}
	if pay > 0 {
		tx.TxOutputs = append(tx.TxOutputs, vkit.Out("$", big.NewInt(pay), 0))
	}
	if pay < 5 {
		tx.TxOutputs = append(tx.TxOutputs, vkit.Out("A", big.NewInt(5-pay), 0))
	}
	// contract-originated transfers: the inputs the sandbox selected and the outputs it produced
	nOwn := len(tx.TxOutputs)
	tx.TxInputs = append(tx.TxInputs, resp.UtxoInputs...)
	tx.TxOutputs = append(tx.TxOutputs, resp.UtxoOutputs...)
	transfers := 0
	for _, op := range ops {
		if op.kind == 7 {
			transfers++
		}
	}
	vrt.Cover("program-with-transfer", transfers > 0)
	vrt.Cover("program-with-two-equal-transfers", transfers == 2)
	vrt.Assert((len(resp.UtxoOutputs) > 0) == (transfers > 0), "pre-execution-reports-contract-transfers")
	// a single mutation of the assembled transaction (0: none); id and signature are recomputed so
	// that only the read / write-set logic can refuse it
	mut := vrt.Choice("mutation", 9)
	applicable := true
	switch mut {
	case 1: // a declared write carries another value
		if nwrites == 0 {
			applicable = false
		} else {
			o := tx.TxOutputsExt[0]
			tx.TxOutputsExt[0] = &protos.TxOutputExt{Bucket: o.Bucket, Key: o.Key, Value: append([]byte("x"), o.Value...)}
		}
	case 2: // a declared write is dropped
		if nwrites == 0 {
			applicable = false
		} else {
			tx.TxOutputsExt = tx.TxOutputsExt[:nwrites-1]
		}
	case 3: // an extra write the program does not make
		tx.TxOutputsExt = append(append([]*protos.TxOutputExt{}, tx.TxOutputsExt...), &protos.TxOutputExt{Bucket: "c09", Key: []byte("zz"), Value: []byte("x")})
	case 4: // a declared read cites a version that is not current
		if len(tx.TxInputsExt) == 0 {
			applicable = false
		} else {
			in := tx.TxInputsExt[0]
			tx.TxInputsExt[0] = &protos.TxInputExt{Bucket: in.Bucket, Key: in.Key, RefTxid: []byte("bogus"), RefOffset: in.RefOffset}
		}
	case 5: // the request declares less than the execution uses
		if used == 0 {
			applicable = false
		} else {
			r := *tx.ContractRequests[0]
			r.ResourceLimits = []*protos.ResourceLimit{{Type: protos.ResourceType_XFEE, Limit: used - 1}}
			tx.ContractRequests = []*protos.InvokeRequest{&r}
		}
	case 7: // a token output the contract produced is redirected to the initiator (with two equal transfers: one of the twins)
		if transfers == 0 {
			applicable = false
		} else {
			o := tx.TxOutputs[nOwn]
			outs := append([]*protos.TxOutput{}, tx.TxOutputs...)
			outs[nOwn] = &protos.TxOutput{ToAddr: []byte("A"), Amount: o.Amount, FrozenHeight: o.FrozenHeight}
			tx.TxOutputs = outs
		}
	case 8: // the contract's tokens are spent although the program transfers nothing
		if transfers != 0 {
			applicable = false
		} else {
			tx.TxInputs = append(append([]*protos.TxInput{}, tx.TxInputs...), vkit.In([]byte("t1"), 0, "CT", big.NewInt(2)))
			tx.TxOutputs = append(append([]*protos.TxOutput{}, tx.TxOutputs...), vkit.Out("A", big.NewInt(2), 0))
		}
	case 6: // another argument than the one pre-executed
		if !argMatters {
			applicable = false
		} else {
			r := *tx.ContractRequests[0]
			r.Args = map[string][]byte{"v": otherArg}
			tx.ContractRequests = []*protos.InvokeRequest{&r}
		}
	}
	if !applicable || (mut != 0 && nestedStarved) {
		return
	}
	digest, derr := txhash.MakeTxDigestHash(tx)
	vrt.Assert(derr == nil, "digest-computed")
	tx.InitiatorSigns = []*protos.SignatureInfo{{PublicKey: "K0", Sign: st.Sign(0, digest)}}
	tx.Txid, _ = txhash.MakeTransactionID(tx)
	ok, verr := s.VerifyTx(tx)
	accepted := ok && verr == nil
	if mut == 0 {
		vrt.Cover("verified", accepted)
		vrt.Known("nested-kernel-call-charge-exceeds-declared-limit", nestedStarved)
		vrt.Assert(accepted == (pay >= used), "pre-executed-transaction-verifies-iff-it-pays-for-what-it-used")
		if !accepted {
			verifC09Same(before, verifC09Read(s), "rejected-transaction-changes-nothing")
			return
		}
		vrt.Assert(s.DoTx(tx) == nil, "verified-transaction-is-admitted")
		got := verifC09Read(s)
		for _, k := range verifKeys {
			vrt.Assert(got[k] == want[k], "committed-state-is-the-pre-executed-write-set")
		}
		bCT, _ := s.GetBalance("CT")
		bB, _ := s.GetBalance("B")
		vrt.Assert(bCT != nil && bB != nil && bCT.Int64() == 4-int64(transfers) && bB.Int64() == 5+int64(transfers), "committed-balances-reflect-the-contracts-transfers")
		return
	}
	if pay < used {
		return // refused for the fee already; the mutation is not what is examined
	}
	admitted := accepted && s.DoTx(tx) == nil
	vrt.Cover("mutation-examined", true)
	vrt.Assert(!admitted, "mutated-transaction-is-rejected")
	if !admitted {
		verifC09Same(before, verifC09Read(s), "rejected-transaction-changes-nothing")
		bCT, _ := s.GetBalance("CT")
		vrt.Assert(bCT != nil && bCT.Int64() == 4, "rejected-transaction-leaves-the-contracts-tokens")
	}
}

// verifC09Read: the live value of every key of interest ("" = absent or deleted).
func verifC09Read(s interface {
	CreateXMReader() kledger.XMReader
}) map[string]string {
	out := map[string]string{}
	rd := s.CreateXMReader()
	for _, k := range verifKeys {
		v, err := rd.Get("c09", []byte(k))
		if err != nil || v == nil || v.PureData == nil || (len(v.PureData.Value) == 1 && v.PureData.Value[0] == 0) {
			out[k] = ""
			continue
		}
		out[k] = string(v.PureData.Value)
	}
	return out
}

func verifC09Same(a, b map[string]string, label string) {
	for _, k := range verifKeys {
		vrt.Assert(a[k] == b[k], label)
	}
}

func VerifC09Quick()    { verifC09(2) }
func VerifC09Thorough() { verifC09(3) }

// verifC09TwoRequests: a transaction carrying two contract requests, each charging its own fee
// (0..2): it verifies exactly when the fee output covers the SUM of what the requests use.
func verifC09TwoRequests() {
	vrt.InitPkg("github.com/xuperchain/xupercore/kernel/contract/manager")
	vrt.InitPkg("github.com/xuperchain/xupercore/kernel/contract/kernel")
	e := vkit.NewEnv("c09r", vkit.Genesis("0", "9", "5"), nil)
	st := vcrypto.Ideal([]string{"A", "B", "C"})
	vrt.CryptoClient = st
	s, sc := e.NewStateCtx("live", st, verifACL{})
	mgr, err := contract.CreateManager("default", &contract.ManagerConfig{Basedir: "/verifmem/c09r/contract", BCName: "c09r", Core: verifCore{},
		XMReader: s.CreateXMReader(), Config: &contract.ContractConfig{LogDriver: vlog.Nop{}, Xkernel: contract.XkernelConfig{Enable: true, Driver: "default"}}})
	vrt.Assert(err == nil, "contract-manager-created")
	if err != nil {
		return
	}
	sc.ContractMgr = mgr
	vrt.Assert(s.Play(e.Root.Blockid) == nil, "genesis-plays")
	fees := []int64{int64(vrt.Choice("fee-1", 3)), int64(vrt.Choice("fee-2", 3))}
	for i, name := range []string{"one", "two"} {
		i, name := i, name
		mgr.GetKernRegistry().RegisterKernMethod("$c09r", name, func(ctx contract.KContext) (*contract.Response, error) {
			if err := ctx.Put("c09r", []byte(name), []byte("v")); err != nil {
				return nil, err
			}
			ctx.AddResourceUsed(contract.Limits{XFee: fees[i]})
			return &contract.Response{Status: 200}, nil
		})
	}
	chain := &Chain{ctx: &common.ChainCtx{BCName: "c09r", Ledger: e.L, State: s, Contract: mgr, Crypto: st}, log: vlog.Nop{}}
	chain.ctx.XLog = vlog.Nop{}
	chain.ctx.Timer = timer.NewXTimer()
	rctx := &xctx.BaseCtx{XLog: vlog.Nop{}, Timer: timer.NewXTimer()}
	reqs := []*protos.InvokeRequest{{ModuleName: "xkernel", ContractName: "$c09r", MethodName: "one"}, {ModuleName: "xkernel", ContractName: "$c09r", MethodName: "two"}}
	resp, perr := chain.PreExec(rctx, reqs, "A", nil)
	vrt.Assert(perr == nil, "pre-execution-succeeds")
	if perr != nil {
		return
	}
	used := fees[0] + fees[1]
	vrt.Assert(resp.GasUsed == used, "reported-gas-is-the-sum-over-the-requests")
	pay := int64(vrt.Choice("pay", 6))
	tx := &lpb.Transaction{Version: 3, Initiator: "A", Nonce: "n", Timestamp: 7, Desc: []byte("c09r"),
		ContractRequests: resp.Requests, TxInputsExt: resp.Inputs, TxOutputsExt: resp.Outputs,
		TxInputs: []*protos.TxInput{vkit.In(e.RootTx.Txid, 0, "A", big.NewInt(9))}}
	if pay > 0 {
		tx.TxOutputs = append(tx.TxOutputs, vkit.Out("$", big.NewInt(pay), 0))
	}
	tx.TxOutputs = append(tx.TxOutputs, vkit.Out("A", big.NewInt(9-pay), 0))
	digest, derr := txhash.MakeTxDigestHash(tx)
	vrt.Assert(derr == nil, "digest-computed")
	tx.InitiatorSigns = []*protos.SignatureInfo{{PublicKey: "K0", Sign: st.Sign(0, digest)}}
	tx.Txid, _ = txhash.MakeTransactionID(tx)
	ok, verr := s.VerifyTx(tx)
	accepted := ok && verr == nil
	vrt.Cover("underpaying-rejected", !accepted)
	vrt.Cover("paying-accepted", accepted)
	vrt.Assert(accepted == (pay >= used), "transaction-verifies-iff-it-pays-for-the-sum-of-its-requests")
}

func VerifC09TwoRequests() { verifC09TwoRequests() }
