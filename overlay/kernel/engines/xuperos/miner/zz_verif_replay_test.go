package miner

import (
	"testing"

	"github.com/xuperchain/xupercore/zzverif/vrt"
)

func TestVerifReplay(t *testing.T) {
	vrt.RunReplay(t, map[string]func(){
		"VerifC13Budget": VerifC13Budget,
	})
}
