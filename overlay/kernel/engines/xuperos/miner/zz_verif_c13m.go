package miner

// Harness for property C13, the miner's own selection step (Miner.getUnconfirmedTx: the pool's order cut
// at the block's size budget). Injected by overlay from /verif.

import (
	"math/big"

	"github.com/golang/protobuf/proto"

	"github.com/xuperchain/xupercore/kernel/engines/xuperos/common"
	"github.com/xuperchain/xupercore/protos"
	"github.com/xuperchain/xupercore/zzverif/vrt"
	"github.com/xuperchain/xupercore/zzverif/vrt/vkit"
)

// VerifC13Budget: the pool holds a large parent, a small child spending its output, a grandchild and an
// independent transaction; the size budget is a solver variable.  Whatever is selected must fit the
// budget and be closed under pending parents, each parent selected before its child - otherwise the
// block cannot be replayed by a node that never saw the pool.
func VerifC13Budget() {
	e := vkit.NewEnv("c13m", vkit.Genesis("0", "9", "5"), nil)
	s := e.NewState("live")
	vrt.Assert(s.Play(e.Root.Blockid) == nil, "genesis-plays")
	parent := vkit.Tx("pa", []*protos.TxInput{vkit.In(e.RootTx.Txid, 0, "A", big.NewInt(9))}, []*protos.TxOutput{vkit.Out("B", big.NewInt(4), 0), vkit.Out("A", big.NewInt(5), 0)})
	parent.Desc = make([]byte, 60) // the large one
	child := vkit.Tx("ch", []*protos.TxInput{vkit.In([]byte("pa"), 0, "B", big.NewInt(4))}, []*protos.TxOutput{vkit.Out("C", big.NewInt(4), 0)})
	grand := vkit.Tx("gr", []*protos.TxInput{vkit.In([]byte("ch"), 0, "C", big.NewInt(4))}, []*protos.TxOutput{vkit.Out("A", big.NewInt(4), 0)})
	indep := vkit.Tx("in", []*protos.TxInput{vkit.In(e.RootTx.Txid, 1, "B", big.NewInt(5))}, []*protos.TxOutput{vkit.Out("C", big.NewInt(5), 0)})
	pending := map[string]bool{}
	for _, t := range []*struct {
		id string
		ok bool
	}{{"pa", s.DoTx(parent) == nil}, {"ch", s.DoTx(child) == nil}, {"gr", s.DoTx(grand) == nil}, {"in", s.DoTx(indep) == nil}} {
		vrt.Assert(t.ok, "pool-admits-transaction")
		pending[t.id] = true
	}
	m := &Miner{ctx: &common.ChainCtx{State: s}}
	limit := int(vrt.Int("budget", 0, 400))
	got, err := m.getUnconfirmedTx(limit)
	vrt.Assert(err == nil, "selection-succeeds")
	total := 0
	picked := map[string]bool{}
	for _, tx := range got {
		total += proto.Size(tx)
		for _, in := range tx.TxInputs {
			if pending[string(in.RefTxid)] {
				vrt.Assert(picked[string(in.RefTxid)], "selected-transaction-has-its-pending-parent-selected-before-it")
			}
		}
		picked[string(tx.Txid)] = true
	}
	vrt.Assert(total <= limit, "selection-fits-the-budget")
	vrt.Cover("cut-by-budget", len(got) > 0 && len(got) < 4)
	vrt.Cover("everything-selected", len(got) == 4)
}
