package xuperos

import (
	"testing"

	"github.com/xuperchain/xupercore/zzverif/vrt"
)

func TestVerifReplay(t *testing.T) {
	vrt.RunReplay(t, map[string]func(){
		"VerifC09Quick":       VerifC09Quick,
		"VerifC09Thorough":    VerifC09Thorough,
		"VerifC09TwoRequests": VerifC09TwoRequests,
		"VerifC11RuleChange":  VerifC11RuleChange,
		"VerifC07Invoke":      VerifC07Invoke,
	})
}
