package xpoa

import (
	"testing"

	"github.com/xuperchain/xupercore/zzverif/vrt"
)

func TestVerifReplay(t *testing.T) {
	vrt.RunReplay(t, map[string]func(){
		"VerifC16XpoaQuick":    VerifC16XpoaQuick,
		"VerifC16XpoaThorough": VerifC16XpoaThorough,
	})
}
