package xpoa

// Harness for property C16 (slot schedule), XPoA part. Injected by overlay from /verif.

import "github.com/xuperchain/xupercore/zzverif/vrt"

const verifMs = int64(1000000)

// verifC16Xpoa: for every configuration (enumerated) and every nanosecond
// timestamp (symbolic) the triple computed by minerScheduling(t, n) satisfies
//
//	start(term,pos,bp) = (term-1)*n*blockNum*period + pos*blockNum*period + (bp-1)*period
//	(1) 1<=term, 0<=pos<n, 1<=bp<=blockNum and T in [start, start+period]
//	(2) T strictly inside the window of ANY in-range (term',pos',bp') => those are the computed indices
//	(3) the windows tile time in order with no gap: next slot / producer / term starts where the previous ends.
func verifC16Xpoa(periods, blockNums []int64, maxN int) {
	p := periods[vrt.Choice("period", len(periods))]
	B := blockNums[vrt.Choice("blockNum", len(blockNums))]
	n := int64(1 + vrt.Choice("validators", maxN))
	s := &xpoaSchedule{period: p, blockNum: B}
	start := func(term, pos, bp int64) int64 {
		return (term-1)*n*B*p + pos*B*p + (bp-1)*p
	}
	T := vrt.Int("T_ms", 0, 2000000000000) // any time from the epoch to ~2033, in ms
	r := vrt.Int("r_ns", 0, verifMs-1)
	t := T*verifMs + r
	term, pos, bp := s.minerScheduling(t, int(n))

	vrt.Assert(term >= 1 && pos >= 0 && pos < n && bp >= 1 && bp <= B, "indices-in-range")
	// entitlement test used by GetLocalLeader / CompeteMaster never rejects an in-range triple
	vrt.Assert(!(bp < 0 || bp > s.blockNum || pos >= n), "always-one-entitled-producer")
	st := start(term, pos, bp)
	vrt.Assert(st <= T && T <= st+p, "inside-its-window")

	// the producer GetLocalLeader names (what CheckMinerMatch compares the block's proposer with) is the
	// owner under the set in force at the block's height - here the initial set, n members - whatever
	// the size of the set this node has cached from its own tip
	names := []string{"v0", "v1", "v2", "v3", "v4"}
	s.initValidators = names[:n]
	s.validators = []string{"c0", "c1", "c2", "c3", "c4"}[:1+vrt.Choice("cached-validators", maxN)]
	leader := s.GetLocalLeader(t, 2, nil)
	for j := int64(0); j < n; j++ {
		vrt.Assert(pos != j || leader == names[j], "leader-is-the-owner-under-the-set-in-force")
	}

	term2 := vrt.Int("term2", 1, 2000000000000)
	pos2 := vrt.Int("pos2", 0, n-1)
	bp2 := vrt.Int("bp2", 1, B)
	st2 := start(term2, pos2, bp2)
	inside := st2 < T && T < st2+p
	vrt.Cover("interior", inside)
	vrt.Assert(!inside || term == term2, "window-interior-term")
	vrt.Assert(!inside || pos == pos2, "window-interior-producer")
	vrt.Assert(!inside || bp == bp2, "window-interior-slot")

	vrt.Assert(!(bp2+1 <= B) || start(term2, pos2, bp2+1) == st2+p, "next-slot-adjacent")
	vrt.Assert(!(pos2+1 < n) || start(term2, pos2+1, 1) == start(term2, pos2, B)+p, "next-producer-adjacent")
	vrt.Assert(start(term2+1, 0, 1) == start(term2, n-1, B)+p, "next-term-adjacent")
}

func VerifC16XpoaQuick() { verifC16Xpoa([]int64{3000, 500, 7}, []int64{1, 3, 10}, 3) }
func VerifC16XpoaThorough() {
	verifC16Xpoa([]int64{3000, 500, 7, 1, 1000}, []int64{1, 2, 3, 10, 20}, 5)
}
