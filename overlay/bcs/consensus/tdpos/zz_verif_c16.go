package tdpos

// Harnesses for property C16 (slot schedule), TDPoS part. Injected by overlay from /verif.

import "github.com/xuperchain/xupercore/zzverif/vrt"

type verifSlot struct {
	term, pos, bp int64
	ent           bool
}

func verifSlotOf(s *tdposSchedule, t int64) verifSlot {
	term, pos, bp := s.minerScheduling(t)
	// entitlement exactly as CheckMinerMatch / CompeteMaster / ProcessBeforeMiner test it
	ent := !(bp < 0 || bp >= s.blockNum || pos >= s.proposerNum)
	return verifSlot{term, pos, bp, ent}
}

func verifLexLE(a, b verifSlot) bool {
	if a.term != b.term {
		return a.term < b.term
	}
	if a.pos != b.pos {
		return a.pos < b.pos
	}
	return a.bp <= b.bp
}

const verifMs = int64(1000000)

// verifC16Tdpos: for every configuration of the box (enumerated) and EVERY
// nanosecond timestamp of ~11.5 days after init (symbolic), the triple the
// code computes is characterised by window arithmetic that contains no
// division:
//   start(term,pos,bp) = initMs + (term-1)*termTime + termInterval - period + pos*posTime + bp*period
//   window(term,pos,bp) = [start, start+period]          (closed; the boundary ms is left to the code)
// (1) entitled(t)  =>  indices in range and T in window(term,pos,bp)
// (2) T strictly inside window(term',pos',bp') for ANY in-range indices  =>  entitled(t) with exactly those indices
// (3) windows are ordered and disjoint (pure arithmetic over symbolic indices): successive slots, producers
//     and terms follow each other, so (1)+(2) give: at most one producer per timestamp, blockNum consecutive
//     slots of one period per producer, producers in order, terms in order.
func verifC16Tdpos(periods, blockNums, propNums, altExtra, termExtra []int64, inits []int64) {
	p := periods[vrt.Choice("period", len(periods))]
	B := blockNums[vrt.Choice("blockNum", len(blockNums))]
	N := propNums[vrt.Choice("proposerNum", len(propNums))]
	a := p + altExtra[vrt.Choice("alternate", len(altExtra))] // alternateInterval >= period (documented precondition)
	g := a + termExtra[vrt.Choice("termgap", len(termExtra))] // termInterval >= alternateInterval (documented precondition)
	init := inits[vrt.Choice("init", len(inits))]
	s := &tdposSchedule{period: p, blockNum: B, proposerNum: N, alternateInterval: a, termInterval: g, initTimestamp: init}
	initMs := init / verifMs
	posTime := a + p*(B-1)
	termTime := g + (B-1)*N*p + (N-1)*a
	start := func(term, pos, bp int64) int64 {
		return initMs + (term-1)*termTime + g - p + pos*posTime + bp*p
	}

	// t = T ms + r ns
	T := vrt.Int("T_ms", initMs, initMs+verifSpanMs)
	r := vrt.Int("r_ns", 0, verifMs-1)
	t := T*verifMs + r
	vrt.Assume(t >= init)
	x := verifSlotOf(s, t)
	vrt.Cover("entitled", x.ent)
	vrt.Cover("gap", !x.ent)
	vrt.Cover("last-slot", x.ent && x.bp == B-1)

	// (1)
	inRange := x.term >= 1 && x.pos >= 0 && x.pos < N && x.bp >= 0 && x.bp < B
	vrt.Assert(!x.ent || inRange, "entitled-in-range")
	st := start(x.term, x.pos, x.bp)
	vrt.Assert(!x.ent || (st <= T && T <= st+p), "entitled-inside-its-window")

	// (2) arbitrary in-range indices
	term2 := vrt.Int("term2", 1, verifSpanMs)
	pos2 := vrt.Int("pos2", 0, N-1)
	bp2 := vrt.Int("bp2", 0, B-1)
	st2 := start(term2, pos2, bp2)
	inside := st2 < T && T < st2+p
	vrt.Assert(!inside || x.term == term2, "window-interior-term")
	vrt.Assert(!inside || x.pos == pos2, "window-interior-producer")
	vrt.Assert(!inside || x.bp == bp2, "window-interior-slot")
	vrt.Assert(!inside || x.ent, "window-interior-is-entitled")

	// (3) window arithmetic: order and disjointness
	vrt.Assert(!(bp2+1 < B) || start(term2, pos2, bp2+1) == st2+p, "next-slot-starts-one-period-later")
	vrt.Assert(!(pos2+1 < N) || start(term2, pos2+1, 0) >= start(term2, pos2, B-1)+p, "next-producer-after-last-slot")
	vrt.Assert(start(term2+1, 0, 0) >= start(term2, N-1, B-1)+p, "next-term-after-last-producer")
}

func VerifC16TdposQuick() {
	verifC16Tdpos([]int64{3000, 500, 7}, []int64{1, 3, 20}, []int64{1, 2, 3}, []int64{0, 1}, []int64{0, 2999},
		[]int64{1559021720000000000})
}

func VerifC16TdposThorough() {
	verifC16Tdpos([]int64{3000, 500, 7, 1, 1000}, []int64{1, 2, 3, 20}, []int64{1, 2, 3, 4}, []int64{0, 1, 3000}, []int64{0, 1, 2999},
		[]int64{1559021720000000000, 1559021720000000001, 999999})
}

func VerifC16TdposProbe() {
	verifC16Tdpos([]int64{500}, []int64{20}, []int64{1}, []int64{0}, []int64{2999}, []int64{1559021720000000000})
}

// verifSpanMs: the symbolic timestamp ranges over every nanosecond of this
// many milliseconds after init (10^9 ms = ~11.5 days, thousands of terms).
const verifSpanMs = int64(1000000000)
