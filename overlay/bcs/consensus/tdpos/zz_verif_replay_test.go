package tdpos

import (
	"testing"

	"github.com/xuperchain/xupercore/zzverif/vrt"
)

func TestVerifReplay(t *testing.T) {
	vrt.RunReplay(t, map[string]func(){
		"VerifC16TdposQuick":    VerifC16TdposQuick,
		"VerifC16TdposThorough": VerifC16TdposThorough,
	})
}
