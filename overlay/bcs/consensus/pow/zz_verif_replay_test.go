package pow

import (
	"testing"

	"github.com/xuperchain/xupercore/zzverif/vrt"
)

func TestVerifReplay(t *testing.T) {
	vrt.RunReplay(t, map[string]func(){
		"VerifC16CompactQuick":    VerifC16CompactQuick,
		"VerifC16CompactThorough": VerifC16CompactThorough,
		"VerifC16ProofedQuick":    VerifC16ProofedQuick,
		"VerifC16ProofedThorough": VerifC16ProofedThorough,
	})
}
