package pow

// Harnesses for property C16, proof-of-work part. Injected by overlay from /verif.

import (
	"math/big"

	"github.com/xuperchain/xupercore/zzverif/vrt"
)

func verifSizes(all bool) []uint32 {
	var out []uint32
	if all {
		for i := 0; i < 256; i++ {
			out = append(out, uint32(i))
		}
		return out
	}
	for i := 0; i <= 36; i++ {
		out = append(out, uint32(i))
	}
	return append(out, 37, 100, 255)
}

// denote: the number a compact encoding stands for (Bitcoin's definition):
// mantissa (low 23 bits) times 256^(size-3).
func verifDenote(size uint32, word int64) *big.Int {
	d := big.NewInt(word)
	if size <= 3 {
		return d.Rsh(d, uint(8*(3-size)))
	}
	return d.Lsh(d, uint(8*(size-3)))
}

// verifC16Compact: every 32-bit compact value (size byte enumerated, the 24
// mantissa bits symbolic).
func verifC16Compact(all bool) {
	sizes := verifSizes(all)
	size := sizes[vrt.Choice("size", len(sizes))]
	m := vrt.Int("mantissa", 0, 0xFFFFFF)
	c := size<<24 | uint32(m)
	word := m % 0x800000
	sign := m >= 0x800000

	u, neg, over := SetCompact(c)
	want := verifDenote(size, word)
	vrt.Cover("plain", !neg && !over)
	vrt.Assert(u.Cmp(want) == 0, "setcompact-denotes-mantissa-times-256^(size-3)")
	vrt.Assert(neg == (want.Sign() != 0 && sign), "negative-flag-is-sign-bit-of-nonzero")
	limit := new(big.Int).Lsh(big.NewInt(1), 256)
	vrt.Assert(neg || over || want.Cmp(limit) < 0, "unflagged-target-fits-256-bits")

	// round trip for normalised encodings: top mantissa byte non-zero (0x010000 <= mantissa), sign clear, no overflow
	if !neg && !over && !sign && word >= 0x010000 && size >= 3 {
		back, ok := GetCompact(u)
		vrt.Cover("roundtrip", ok)
		vrt.Assert(ok && back == c, "getcompact-inverts-setcompact-on-normalised")
	}
}

func VerifC16CompactQuick()    { verifC16Compact(false) }
func VerifC16CompactThorough() { verifC16Compact(true) }

// verifC16Proofed: IsProofed(id, bits) true => the 256-bit id, read big-endian,
// is not above the target the bits denote (and the bits are a valid target).
func verifC16Proofed(all bool) {
	id := vrt.Bytes("id", 32)
	h := new(big.Int).SetBytes(id)
	if vrt.Choice("bitcoin", 2) == 1 {
		sizes := verifSizes(all)
		size := sizes[vrt.Choice("size", len(sizes))]
		m := vrt.Int("mantissa", 0, 0xFFFFFF)
		bits := size<<24 | uint32(m)
		maxT, _, _ := SetCompact(0x1d00FFFF)
		p := &PoWConsensus{bitcoinFlag: true, maxDifficulty: maxT}
		ok := p.IsProofed(id, bits)
		vrt.Cover("proofed-bitcoin", ok)
		vrt.Cover("rejected-bitcoin", !ok)
		want := verifDenote(size, m%0x800000)
		vrt.Assert(!ok || h.Cmp(want) <= 0, "proofed-implies-hash-not-above-target")
		vrt.Assert(!ok || !(m >= 0x800000 && want.Sign() != 0), "proofed-implies-non-negative-target")
		return
	}
	bits := uint32(vrt.Int("bits", 0, 256))
	p := &PoWConsensus{bitcoinFlag: false}
	ok := p.IsProofed(id, bits)
	vrt.Cover("proofed-legacy", ok)
	want := new(big.Int).Lsh(big.NewInt(1), uint(256-bits))
	vrt.Assert(!ok || h.Cmp(want) <= 0, "legacy-proofed-implies-hash-not-above-2^(256-bits)")
}

func VerifC16ProofedQuick()    { verifC16Proofed(false) }
func VerifC16ProofedThorough() { verifC16Proofed(true) }
