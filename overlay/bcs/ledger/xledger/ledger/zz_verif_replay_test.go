package ledger

import (
	"testing"

	"github.com/xuperchain/xupercore/zzverif/vrt"
)

func TestVerifReplay(t *testing.T) {
	vrt.RunReplay(t, map[string]func(){
		"VerifC08MerkleQuick":    VerifC08MerkleQuick,
		"VerifC08MerkleThorough": VerifC08MerkleThorough,
		"VerifC08VerifyQuick":    VerifC08VerifyQuick,
		"VerifC08VerifyThorough": VerifC08VerifyThorough,
		"VerifC08FormatQuick":    VerifC08FormatQuick,
		"VerifC08FormatThorough": VerifC08FormatThorough,
		"VerifC08Header":         VerifC08Header,
	})
}
