package ledger

// Harnesses for property C08 (block integrity). Injected by overlay from /verif.

import (
	"math/big"

	pb "github.com/xuperchain/xupercore/bcs/ledger/xledger/xldgpb"
	"github.com/xuperchain/xupercore/zzverif/vrt"
	"github.com/xuperchain/xupercore/zzverif/vrt/vcrypto"
	"github.com/xuperchain/xupercore/zzverif/vrt/vlog"
)

func verifTxs(tag string, n int) []*pb.Transaction {
	var out []*pb.Transaction
	for i := 0; i < n; i++ {
		out = append(out, &pb.Transaction{Txid: vrt.Bytes(tag+string([]byte{byte('0' + i)}), 1)})
	}
	return out
}

// verifStub: key string "p<id>"; bound/valid are decided by the harness.
func verifStub(bound func(id int) string, valid func(id int, sig, msg []byte) bool) *vcrypto.Stub {
	return &vcrypto.Stub{
		ParseKey: func(s string) (int, bool) {
			if len(s) == 2 && s[0] == 'p' && s[1] >= '0' && s[1] <= '3' {
				return int(s[1] - '0'), true
			}
			return 0, false
		},
		KeyString: func(id int) string { return string([]byte{'p', byte('0' + id)}) },
		Addr:      bound,
		Verify:    valid,
		Sign: func(id int, msg []byte) []byte {
			return append([]byte{'S', byte('0' + id)}, msg...)
		},
	}
}

// VerifC08Merkle: two blocks with the same header (hence the same id, merkle
// root and tx count) but arbitrary bodies l, l' of 0..N transactions can only
// both pass VerifyBlock if the bodies are the same ordered list.
func verifC08Merkle(N int) {
	n1 := vrt.Choice("n1", N+1)
	n2 := vrt.Choice("n2", N+1)
	l1 := verifTxs("x", n1)
	l2 := verifTxs("y", n2)
	stub := verifStub(func(int) string { return "M" }, func(int, []byte, []byte) bool { return true })
	lg := &Ledger{xlog: vlog.Nop{}, cryptoClient: stub}

	// the header commits to the first body: its real merkle root and a tx count
	var root []byte
	if t := MakeMerkleTree(l1); len(t) > 0 {
		root = t[len(t)-1]
	}
	txcount := int32(vrt.Int("txcount", 0, 8))
	b1 := &pb.InternalBlock{Version: 1, TxCount: txcount, Proposer: []byte("M"), Pubkey: []byte("p0"),
		PreHash: []byte{7}, Timestamp: 5, MerkleRoot: root, Transactions: l1, Sign: []byte{1}}
	b2 := &pb.InternalBlock{Version: 1, TxCount: txcount, Proposer: []byte("M"), Pubkey: []byte("p0"),
		PreHash: []byte{7}, Timestamp: 5, MerkleRoot: root, Transactions: l2, Sign: []byte{1}}
	id, err := MakeBlockID(b1)
	vrt.Assert(err == nil, "make-id")
	b1.Blockid, b2.Blockid = id, id

	ok1, _ := lg.VerifyBlock(b1, "")
	ok2, _ := lg.VerifyBlock(b2, "")
	vrt.Cover("both-verify", ok1 && ok2)
	if ok1 && ok2 {
		vrt.Known("dup-tail", n1 != n2)
		vrt.Assert(n1 == n2, "same-header-same-number-of-transactions")
		if n1 == n2 {
			for i := 0; i < n1; i++ {
				vrt.Assert(l1[i].Txid[0] == l2[i].Txid[0], "same-header-same-ordered-transactions")
			}
		}
	}
}

func VerifC08MerkleQuick()    { verifC08Merkle(5) }
func VerifC08MerkleThorough() { verifC08Merkle(6) }

// VerifC08Verify: an arbitrary block passes VerifyBlock only if its id is the
// hash of its header, its merkle root is the root of its body, the public key
// parses and hashes to the proposer, and the signature verifies over the id.
func verifC08Verify(N int) {
	n := vrt.Choice("n", N+1)
	txs := verifTxs("t", n)
	keyOK := vrt.Bool("key-binds-proposer")
	sigOK := vrt.Bool("signature-valid-over-id")
	parse := vrt.Bool("pubkey-parses")
	pub := []byte("p1")
	if !parse {
		pub = []byte("??")
	}
	var verifiedMsg []byte
	stub := verifStub(func(int) string {
		if keyOK {
			return "M"
		}
		return "other"
	}, func(id int, sig, msg []byte) bool { verifiedMsg = msg; return sigOK })
	lg := &Ledger{xlog: vlog.Nop{}, cryptoClient: stub}
	b := &pb.InternalBlock{Version: int32(vrt.Int("version", 0, 3)), Nonce: int32(vrt.Int("nonce", -2, 2)), TxCount: int32(vrt.Int("txcount", 0, 8)),
		Proposer: []byte("M"), Pubkey: pub, PreHash: vrt.Bytes("prehash", 2), Timestamp: vrt.Int("ts", 0, 1<<40),
		Transactions: txs, Sign: []byte{1},
		CurTerm: vrt.Int("term", 0, 3), CurBlockNum: vrt.Int("blocknum", 0, 3), TargetBits: int32(vrt.Int("bits", -1, 3))}
	// merkle root and id are computed by the real code and then optionally corrupted, so that
	// counterexamples do not depend on digest values only the hash model could produce
	rootOK := vrt.Bool("root-is-root-of-body")
	idOK := vrt.Bool("id-is-hash-of-header")
	if t := MakeMerkleTree(txs); len(t) > 0 {
		b.MerkleRoot = append([]byte{}, t[len(t)-1]...)
	} else {
		b.MerkleRoot = []byte{1, 2, 3}
	}
	if !rootOK {
		b.MerkleRoot[0] ^= 1
	}
	// the merkle tree a block carries is not hashed into its id: the sender is free to ship none, the
	// body's real tree, or that tree with its root slot set to whatever the header says
	if carried := vrt.Choice("carried-tree", 3); carried > 0 {
		for _, n := range MakeMerkleTree(txs) {
			b.MerkleTree = append(b.MerkleTree, append([]byte{}, n...))
		}
		if carried == 2 && len(b.MerkleTree) > 0 {
			b.MerkleTree[len(b.MerkleTree)-1] = append([]byte{}, b.MerkleRoot...)
		}
	}
	realID, _ := MakeBlockID(b)
	b.Blockid = append([]byte{}, realID...)
	if !idOK {
		b.Blockid[0] ^= 1
	}
	ok, _ := lg.VerifyBlock(b, "")
	vrt.Cover("accepted", ok)
	vrt.Cover("rejected", !ok)
	if !ok {
		return
	}
	id, _ := MakeBlockID(b)
	vrt.Assert(idOK && string(id) == string(b.Blockid), "accepted-id-is-hash-of-header")
	tree := MakeMerkleTree(b.Transactions)
	vrt.Assert(rootOK && len(tree) > 0 && string(tree[len(tree)-1]) == string(b.MerkleRoot), "accepted-root-is-root-of-body")
	vrt.Assert(int(b.TxCount) == len(b.Transactions), "accepted-txcount-is-body-length")
	vrt.Assert(parse && keyOK, "accepted-key-parses-and-hashes-to-proposer")
	vrt.Assert(sigOK && string(verifiedMsg) == string(b.Blockid), "accepted-signature-verified-over-id")
}

func VerifC08VerifyQuick()    { verifC08Verify(3) }
func VerifC08VerifyThorough() { verifC08Verify(5) }

// VerifC08Format: a block formatted by the node itself (0..N txs, with and
// without target bits / failed-tx map / justify) always verifies.
func verifC08Format(N int) {
	n := 1 + vrt.Choice("n", N) // formatBlock of an empty list has no merkle root; miners always include the award tx
	txs := verifTxs("t", n)
	stub := verifStub(func(id int) string { return "M" }, nil)
	stub.Verify = func(id int, sig, msg []byte) bool { return string(sig) == string(stub.Sign(id, msg)) }
	lg := &Ledger{xlog: vlog.Nop{}, cryptoClient: stub}
	var failed map[string]string
	if vrt.Choice("failed", 2) == 1 {
		failed = map[string]string{"tx1": "boom", "tx0": "bang"}
	}
	var qc *pb.QuorumCert
	if vrt.Choice("justify", 2) == 1 {
		qc = &pb.QuorumCert{ProposalId: []byte{9}, ViewNumber: vrt.Int("view", 0, 9)}
	}
	bits := int32(vrt.Int("bits", 0, 40))
	b, err := lg.FormatMinerBlock(txs, []byte("M"), stub.PrivKey(2), vrt.Int("ts", 1, 1<<40), vrt.Int("term", 0, 5), vrt.Int("blocknum", 0, 5),
		[]byte{7, 7}, bits, big.NewInt(0), qc, failed, vrt.Int("height", 1, 100))
	vrt.Assert(err == nil, "format-succeeds")
	ok, _ := lg.VerifyBlock(b, "")
	vrt.Assert(ok, "own-block-verifies")
}

func VerifC08FormatQuick()    { verifC08Format(3) }
func VerifC08FormatThorough() { verifC08Format(5) }

// VerifC08Header: two headers that agree everywhere except in ONE hashed
// field (chosen structurally; content symbolic, same length) never share an
// id. (Bytes moving between adjacent variable-length fields that are written
// without a length prefix are outside this harness.)
func verifC08Header() {
	a := &pb.InternalBlock{Version: int32(vrt.Int("version", 0, 3)), Nonce: int32(vrt.Int("nonce", -2, 2)), TxCount: int32(vrt.Int("txcount", 0, 8)),
		Proposer: vrt.Bytes("proposer", 1), Pubkey: vrt.Bytes("pubkey", 1), PreHash: vrt.Bytes("prehash", 1), Timestamp: vrt.Int("ts", 0, 65535),
		MerkleRoot: vrt.Bytes("root", 1), CurTerm: vrt.Int("term", 0, 3), CurBlockNum: vrt.Int("blocknum", 0, 3), TargetBits: int32(vrt.Int("bits", 1, 3)),
		FailedTxs: map[string]string{"k": string(vrt.Bytes("failed", 1))},
		Justify: &pb.QuorumCert{ProposalId: vrt.Bytes("jid", 1), ProposalMsg: vrt.Bytes("jmsg", 1), Type: pb.QCState(vrt.Int("jtype", 0, 2)), ViewNumber: vrt.Int("jview", 0, 3),
			SignInfos: &pb.QCSignInfos{QCSignInfos: []*pb.SignInfo{{Address: string(vrt.Bytes("jaddr", 1)), PublicKey: string(vrt.Bytes("jpk", 1)), Sign: vrt.Bytes("jsign", 1)}}}}}
	b := &pb.InternalBlock{Version: a.Version, Nonce: a.Nonce, TxCount: a.TxCount, Proposer: a.Proposer, Pubkey: a.Pubkey, PreHash: a.PreHash, Timestamp: a.Timestamp,
		MerkleRoot: a.MerkleRoot, CurTerm: a.CurTerm, CurBlockNum: a.CurBlockNum, TargetBits: a.TargetBits, FailedTxs: map[string]string{"k": a.FailedTxs["k"]},
		Justify: &pb.QuorumCert{ProposalId: a.Justify.ProposalId, ProposalMsg: a.Justify.ProposalMsg, Type: a.Justify.Type, ViewNumber: a.Justify.ViewNumber,
			SignInfos: &pb.QCSignInfos{QCSignInfos: []*pb.SignInfo{{Address: a.Justify.SignInfos.QCSignInfos[0].Address, PublicKey: a.Justify.SignInfos.QCSignInfos[0].PublicKey, Sign: a.Justify.SignInfos.QCSignInfos[0].Sign}}}}}
	var differ bool
	switch vrt.Choice("field", 18) {
	case 0:
		b.Version = int32(vrt.Int("version2", 0, 3))
		differ = a.Version != b.Version
	case 1:
		b.Nonce = int32(vrt.Int("nonce2", -2, 2))
		differ = a.Nonce != b.Nonce
	case 2:
		b.TxCount = int32(vrt.Int("txcount2", 0, 8))
		differ = a.TxCount != b.TxCount
	case 3:
		b.Proposer = vrt.Bytes("proposer2", 1)
		differ = a.Proposer[0] != b.Proposer[0]
	case 4:
		b.Pubkey = vrt.Bytes("pubkey2", 1)
		differ = a.Pubkey[0] != b.Pubkey[0]
	case 5:
		b.PreHash = vrt.Bytes("prehash2", 1)
		differ = a.PreHash[0] != b.PreHash[0]
	case 6:
		b.Timestamp = vrt.Int("ts2", 0, 65535)
		differ = a.Timestamp != b.Timestamp
	case 7:
		b.MerkleRoot = vrt.Bytes("root2", 1)
		differ = a.MerkleRoot[0] != b.MerkleRoot[0]
	case 8:
		b.CurTerm = vrt.Int("term2", 0, 3)
		differ = a.CurTerm != b.CurTerm
	case 9:
		b.CurBlockNum = vrt.Int("blocknum2", 0, 3)
		differ = a.CurBlockNum != b.CurBlockNum
	case 10:
		b.TargetBits = int32(vrt.Int("bits2", 1, 3))
		differ = a.TargetBits != b.TargetBits
	case 11:
		b.FailedTxs["k"] = string(vrt.Bytes("failed2", 1))
		differ = a.FailedTxs["k"] != b.FailedTxs["k"]
	case 12:
		b.Justify.ProposalId = vrt.Bytes("jid2", 1)
		differ = a.Justify.ProposalId[0] != b.Justify.ProposalId[0]
	case 13:
		b.Justify.ProposalMsg = vrt.Bytes("jmsg2", 1)
		differ = a.Justify.ProposalMsg[0] != b.Justify.ProposalMsg[0]
	case 14:
		b.Justify.ViewNumber = vrt.Int("jview2", 0, 3)
		differ = a.Justify.ViewNumber != b.Justify.ViewNumber
	case 15:
		b.Justify.SignInfos.QCSignInfos[0].Address = string(vrt.Bytes("jaddr2", 1))
		differ = a.Justify.SignInfos.QCSignInfos[0].Address != b.Justify.SignInfos.QCSignInfos[0].Address
	case 16:
		b.Justify.SignInfos.QCSignInfos[0].Sign = vrt.Bytes("jsign2", 1)
		differ = a.Justify.SignInfos.QCSignInfos[0].Sign[0] != b.Justify.SignInfos.QCSignInfos[0].Sign[0]
	case 17:
		b.Justify.Type = pb.QCState(vrt.Int("jtype2", 0, 2))
		differ = a.Justify.Type != b.Justify.Type
	}
	ida, _ := MakeBlockID(a)
	idb, _ := MakeBlockID(b)
	vrt.Cover("ids-equal", string(ida) == string(idb))
	vrt.Cover("ids-differ", string(ida) != string(idb))
	vrt.Assert(string(ida) != string(idb) || !differ, "equal-ids-imply-equal-hashed-field")
}

func VerifC08Header() { verifC08Header() }
