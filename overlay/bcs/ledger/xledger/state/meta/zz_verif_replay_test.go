package meta

import (
	"testing"

	"github.com/xuperchain/xupercore/zzverif/vrt"
)

func TestVerifReplay(t *testing.T) {
	vrt.RunReplay(t, map[string]func(){
		"VerifC17Arith": VerifC17Arith,
	})
}
