package meta

// Harness for property C17, arithmetic part. Injected by overlay from /verif.

import (
	"sync"

	"github.com/golang/protobuf/proto"
	pb "github.com/xuperchain/xupercore/bcs/ledger/xledger/xldgpb"
	"github.com/xuperchain/xupercore/bcs/ledger/xledger/ledger"
	"github.com/xuperchain/xupercore/zzverif/vrt"
	"github.com/xuperchain/xupercore/zzverif/vrt/memdb"
	"github.com/xuperchain/xupercore/zzverif/vrt/vlog"
)

// verifReadIrr decodes the irreversible height the batch would persist, if any.
func verifReadIrr(b *memdb.Batch) (int64, bool) {
	keys, vals, dels := b.Ops()
	found := false
	var h int64
	for i := range keys {
		if string(keys[i]) == pb.MetaTablePrefix+ledger.IrreversibleBlockHeightKey && !dels[i] {
			m := &pb.UtxoMeta{}
			if err := proto.Unmarshal(vals[i], m); err != nil {
				vrt.Assert(false, "persisted-meta-decodes")
			}
			h = m.IrreversibleBlockHeight
			found = true
		}
	}
	return h, found
}

// VerifC17Arith: one application of the update rule for EVERY (height,
// current irreversible height, window) of int64. One inductive step of
// "irreversible = max over applied blocks of (height - w), floored at 0":
//   window > 0, current >= 0: the new value (persisted in the block's batch and
//   mirrored in MetaTmp) is max(current, height - window); never below current
//   window == 0: nothing changes;  window < 0: refused.
// The prune variant writes max(0, height - window).
func VerifC17Arith() {
	h := vrt.Int("height", 0, 1<<62)
	cur := vrt.Int("current", -4, 1<<62)
	w := vrt.Int("window", -4, 1<<62)
	prune := vrt.Choice("prune", 2) == 1

	m := &Meta{log: vlog.Nop{}, Meta: &pb.UtxoMeta{}, MetaTmp: &pb.UtxoMeta{IrreversibleBlockHeight: cur}, MutexMeta: &sync.Mutex{}}
	b := memdb.New(nil).NewBatch().(*memdb.Batch)
	var err error
	if prune {
		err = m.UpdateNextIrreversibleBlockHeightForPrune(h, cur, w, b)
	} else {
		err = m.UpdateNextIrreversibleBlockHeight(h, cur, w, b)
	}
	persisted, wrote := verifReadIrr(b)
	after := m.MetaTmp.IrreversibleBlockHeight

	vrt.Cover("advanced", err == nil && wrote)
	vrt.Cover("unchanged", err == nil && !wrote)
	vrt.Cover("refused", err != nil)
	vrt.Assert(!(w < 0) || (err != nil && !wrote && after == cur), "negative-window-refused")
	vrt.Assert(!(w == 0) || (err == nil && !wrote && after == cur), "zero-window-changes-nothing")
	vrt.Assert(!wrote || persisted == after, "persisted-equals-in-memory")
	if w > 0 && cur >= 0 {
		want := h - w
		if prune {
			if want < 0 {
				want = 0
			}
			vrt.Assert(err == nil && after == want, "prune-writes-max(0,height-window)")
		} else {
			if want < cur {
				want = cur
			}
			vrt.Assert(err == nil && after == want, "irreversible-is-max(current,height-window)")
			vrt.Assert(after >= cur, "never-decreases-without-prune")
		}
	}
}
