package txhash

import (
	"testing"

	"github.com/xuperchain/xupercore/zzverif/vrt"
)

func TestVerifReplay(t *testing.T) {
	vrt.RunReplay(t, map[string]func(){
		"VerifC07IdV3":          VerifC07IdV3,
		"VerifC07DigestV3":      VerifC07DigestV3,
		"VerifC07ScalarsV3":     VerifC07ScalarsV3,
		"VerifC07ScalarsSignV3": VerifC07ScalarsSignV3,
		"VerifC07DigestV2":      VerifC07DigestV2,
		"VerifC07ScalarsV2":     VerifC07ScalarsV2,
		"VerifC07ScalarsSignV2": VerifC07ScalarsSignV2,
		"VerifC07IdV2":          VerifC07IdV2,
		"VerifC07ArgsV3":        VerifC07ArgsV3,
	})
}
