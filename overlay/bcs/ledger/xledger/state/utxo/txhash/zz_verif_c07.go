package txhash

// Harnesses for property C07, digest pre-image part. Injected by overlay from /verif.

import (
	pb "github.com/xuperchain/xupercore/bcs/ledger/xledger/xldgpb"
	"github.com/xuperchain/xupercore/protos"
	"github.com/xuperchain/xupercore/zzverif/vrt"
)

// verifField: one variable-length field of the transaction schema, in the order the digest visits them.
type verifField struct {
	name  string
	set   func(t *pb.Transaction, b []byte)
	signs bool // part of the id only (signature material), not of the signing digest
	str   bool // a string in the schema (the json stream of versions 1 and 2 escapes some bytes)
}

// verifBytes: n arbitrary bytes; letters only where the json stream would have to escape.
func verifBytes(name string, n int, letters bool) []byte {
	b := vrt.Bytes(name, n)
	if letters {
		for _, c := range b {
			vrt.Assume(c >= 'a' && c <= 'z')
		}
	}
	return b
}

func verifSkeleton(version int32) *pb.Transaction {
	return &pb.Transaction{
		Version:          version,
		TxInputs:         []*protos.TxInput{{}},
		TxOutputs:        []*protos.TxOutput{{}},
		TxInputsExt:      []*protos.TxInputExt{{}},
		TxOutputsExt:     []*protos.TxOutputExt{{}},
		ContractRequests: []*protos.InvokeRequest{{Args: map[string][]byte{}, ResourceLimits: []*protos.ResourceLimit{{}}}},
		AuthRequire:      []string{""},
		InitiatorSigns:   []*protos.SignatureInfo{{}},
		AuthRequireSigns: []*protos.SignatureInfo{{}},
		XuperSign:        &pb.XuperSignature{PublicKeys: [][]byte{nil}},
		HDInfo:           &pb.HDInfo{},
	}
}

var verifArgKey = "k"

func verifFields() []verifField {
	return []verifField{
		{"in.RefTxid", func(t *pb.Transaction, b []byte) { t.TxInputs[0].RefTxid = b }, false, false},
		{"in.FromAddr", func(t *pb.Transaction, b []byte) { t.TxInputs[0].FromAddr = b }, false, false},
		{"in.Amount", func(t *pb.Transaction, b []byte) { t.TxInputs[0].Amount = b }, false, false},
		{"out.Amount", func(t *pb.Transaction, b []byte) { t.TxOutputs[0].Amount = b }, false, false},
		{"out.ToAddr", func(t *pb.Transaction, b []byte) { t.TxOutputs[0].ToAddr = b }, false, false},
		{"Desc", func(t *pb.Transaction, b []byte) { t.Desc = b }, false, false},
		{"Nonce", func(t *pb.Transaction, b []byte) { t.Nonce = string(b) }, false, true},
		{"iext.Bucket", func(t *pb.Transaction, b []byte) { t.TxInputsExt[0].Bucket = string(b) }, false, true},
		{"iext.Key", func(t *pb.Transaction, b []byte) { t.TxInputsExt[0].Key = b }, false, false},
		{"iext.RefTxid", func(t *pb.Transaction, b []byte) { t.TxInputsExt[0].RefTxid = b }, false, false},
		{"oext.Bucket", func(t *pb.Transaction, b []byte) { t.TxOutputsExt[0].Bucket = string(b) }, false, true},
		{"oext.Key", func(t *pb.Transaction, b []byte) { t.TxOutputsExt[0].Key = b }, false, false},
		{"oext.Value", func(t *pb.Transaction, b []byte) { t.TxOutputsExt[0].Value = b }, false, false},
		{"req.Module", func(t *pb.Transaction, b []byte) { t.ContractRequests[0].ModuleName = string(b) }, false, true},
		{"req.Contract", func(t *pb.Transaction, b []byte) { t.ContractRequests[0].ContractName = string(b) }, false, true},
		{"req.Method", func(t *pb.Transaction, b []byte) { t.ContractRequests[0].MethodName = string(b) }, false, true},
		{"req.ArgValue", func(t *pb.Transaction, b []byte) { t.ContractRequests[0].Args[verifArgKey] = b }, false, false},
		{"req.Amount", func(t *pb.Transaction, b []byte) { t.ContractRequests[0].Amount = string(b) }, false, true},
		{"Initiator", func(t *pb.Transaction, b []byte) { t.Initiator = string(b) }, false, true},
		{"AuthRequire", func(t *pb.Transaction, b []byte) { t.AuthRequire[0] = string(b) }, false, true},
		{"isign.PublicKey", func(t *pb.Transaction, b []byte) { t.InitiatorSigns[0].PublicKey = string(b) }, true, true},
		{"isign.Sign", func(t *pb.Transaction, b []byte) { t.InitiatorSigns[0].Sign = b }, true, false},
		{"asign.PublicKey", func(t *pb.Transaction, b []byte) { t.AuthRequireSigns[0].PublicKey = string(b) }, true, true},
		{"asign.Sign", func(t *pb.Transaction, b []byte) { t.AuthRequireSigns[0].Sign = b }, true, false},
		{"xsign.PublicKey", func(t *pb.Transaction, b []byte) { t.XuperSign.PublicKeys[0] = b }, true, false},
		{"xsign.Signature", func(t *pb.Transaction, b []byte) { t.XuperSign.Signature = b }, true, false},
		{"hd.HdPublicKey", func(t *pb.Transaction, b []byte) { t.HDInfo.HdPublicKey = b }, false, false},
		{"hd.OriginalHash", func(t *pb.Transaction, b []byte) { t.HDInfo.OriginalHash = b }, false, false},
	}
}

func verifSame(a, b []byte) bool { return len(a) == len(b) && string(a) == string(b) }

// verifC07Adjacent: two transactions agree everywhere except in a window of two
// fields that are neighbours in the digest's visiting order; lengths (0..maxLen) and
// contents of the window are arbitrary in both. Equal digests must imply equal fields
// (bytes can never move from one field into its neighbour).
func verifC07Adjacent(version int32, includeSigns bool, maxLen int) {
	fs := verifFields()
	w := vrt.Choice("window", len(fs)-1)
	f1, f2 := fs[w], fs[w+1]
	if !includeSigns && (f1.signs || f2.signs) {
		return
	}
	common := make([][]byte, len(fs))
	for i := range fs {
		common[i] = verifBytes("c."+fs[i].name, 1, version < 3 && fs[i].str)
	}
	build := func(tag string) (*pb.Transaction, []byte, []byte) {
		t := verifSkeleton(version)
		for i, f := range fs {
			f.set(t, common[i])
		}
		a := verifBytes(tag+"1", vrt.Choice("len1", maxLen+1), version < 3 && f1.str)
		b := verifBytes(tag+"2", vrt.Choice("len2", maxLen+1), version < 3 && f2.str)
		f1.set(t, a)
		f2.set(t, b)
		return t, a, b
	}
	t, a1, a2 := build("a")
	u, b1, b2 := build("b")
	var dt, du []byte
	if includeSigns {
		dt, _ = MakeTransactionID(t)
		du, _ = MakeTransactionID(u)
	} else {
		dt, _ = MakeTxDigestHash(t)
		du, _ = MakeTxDigestHash(u)
	}
	eq := verifSame(dt, du)
	vrt.Cover("digests-equal", eq)
	vrt.Cover("digests-differ", !eq)
	// known-finding class: the json stream of versions 1 and 2 omits these byte fields when empty and
	// nothing separates them from their neighbour, so a value can move from one into the other
	skipPair := version < 3 && (f1.name == "in.FromAddr" && f2.name == "in.Amount" ||
		f1.name == "iext.Key" && f2.name == "iext.RefTxid" || f1.name == "oext.Key" && f2.name == "oext.Value")
	moved := len(a1) == 0 && len(b2) == 0 || len(a2) == 0 && len(b1) == 0
	vrt.Known("json-stream-omits-empty-neighbouring-fields", skipPair && moved)
	vrt.Assert(!eq || verifSame(a1, b1), "equal-digests-imply-equal-first-field")
	vrt.Known("json-stream-omits-empty-neighbouring-fields", skipPair && moved)
	vrt.Assert(!eq || verifSame(a2, b2), "equal-digests-imply-equal-second-field")
}

// verifC07Scalars: the same for the fixed-width fields and element counts.
func verifC07Scalars(version int32, includeSigns bool) {
	t := verifSkeleton(version)
	u := verifSkeleton(version)
	hi := int64(70000) // fixed-width binary in version 3
	if version < 3 {
		hi = 99 // decimal text in the json stream: one or two digits
	}
	for i, f := range verifFields() {
		c := verifBytes("c."+string([]byte{byte('a' + i)}), 1, version < 3 && f.str)
		f.set(t, c)
		f.set(u, c)
	}
	differ := true
	switch vrt.Choice("field", 16) {
	case 0:
		t.TxInputs[0].RefOffset, u.TxInputs[0].RefOffset = int32(vrt.Int("x", 0, hi)), int32(vrt.Int("y", 0, hi))
		differ = t.TxInputs[0].RefOffset != u.TxInputs[0].RefOffset
	case 1:
		t.TxInputs[0].FrozenHeight, u.TxInputs[0].FrozenHeight = vrt.Int("x", 0, hi), vrt.Int("y", 0, hi)
		differ = t.TxInputs[0].FrozenHeight != u.TxInputs[0].FrozenHeight
	case 2:
		t.TxOutputs[0].FrozenHeight, u.TxOutputs[0].FrozenHeight = vrt.Int("x", 0, hi), vrt.Int("y", 0, hi)
		differ = t.TxOutputs[0].FrozenHeight != u.TxOutputs[0].FrozenHeight
	case 3:
		t.Coinbase, u.Coinbase = vrt.Bool("x"), vrt.Bool("y")
		differ = t.Coinbase != u.Coinbase
	case 4:
		t.Timestamp, u.Timestamp = vrt.Int("x", 0, hi), vrt.Int("y", 0, hi)
		differ = t.Timestamp != u.Timestamp
	case 5:
		t.Autogen, u.Autogen = vrt.Bool("x"), vrt.Bool("y")
		differ = t.Autogen != u.Autogen
	case 6:
		t.TxInputsExt[0].RefOffset, u.TxInputsExt[0].RefOffset = int32(vrt.Int("x", 0, hi)), int32(vrt.Int("y", 0, hi))
		differ = t.TxInputsExt[0].RefOffset != u.TxInputsExt[0].RefOffset
	case 7:
		t.ContractRequests[0].ResourceLimits[0].Limit, u.ContractRequests[0].ResourceLimits[0].Limit = vrt.Int("x", 0, hi), vrt.Int("y", 0, hi)
		differ = t.ContractRequests[0].ResourceLimits[0].Limit != u.ContractRequests[0].ResourceLimits[0].Limit
	case 8:
		t.ContractRequests[0].ResourceLimits[0].Type, u.ContractRequests[0].ResourceLimits[0].Type = protos.ResourceType(vrt.Int("x", 0, 3)), protos.ResourceType(vrt.Int("y", 0, 3))
		differ = t.ContractRequests[0].ResourceLimits[0].Type != u.ContractRequests[0].ResourceLimits[0].Type
	case 9: // one more input
		u.TxInputs = append(u.TxInputs, &protos.TxInput{RefTxid: verifBytes("extra", 1, version < 3)})
	case 10: // one more output
		u.TxOutputs = append(u.TxOutputs, &protos.TxOutput{Amount: verifBytes("extra", 1, version < 3)})
	case 11:
		u.TxInputsExt = append(u.TxInputsExt, &protos.TxInputExt{Bucket: string(verifBytes("extra", 1, version < 3))})
	case 12:
		u.TxOutputsExt = append(u.TxOutputsExt, &protos.TxOutputExt{Bucket: string(verifBytes("extra", 1, version < 3))})
	case 13:
		u.AuthRequire = append(u.AuthRequire, string(verifBytes("extra", 1, version < 3)))
	case 14: // another argument
		u.ContractRequests[0].Args["z"] = verifBytes("extra", 1, version < 3)
	case 15:
		u.ContractRequests = append(u.ContractRequests, &protos.InvokeRequest{ModuleName: string(verifBytes("extra", 1, version < 3))})
	}
	var dt, du []byte
	if includeSigns {
		dt, _ = MakeTransactionID(t)
		du, _ = MakeTransactionID(u)
	} else {
		dt, _ = MakeTxDigestHash(t)
		du, _ = MakeTxDigestHash(u)
	}
	eq := verifSame(dt, du)
	vrt.Cover("digests-equal", eq)
	vrt.Cover("digests-differ", !eq)
	vrt.Assert(!eq || !differ, "equal-digests-imply-equal-scalar-or-count")
}

func VerifC07IdV3()          { verifC07Adjacent(3, true, 2) }
func VerifC07DigestV3()      { verifC07Adjacent(3, false, 2) }
func VerifC07ScalarsV3()     { verifC07Scalars(3, true) }
func VerifC07ScalarsSignV3() { verifC07Scalars(3, false) }
func VerifC07ScalarsV2()     { verifC07Scalars(2, true) }
func VerifC07ScalarsSignV2() { verifC07Scalars(2, false) }
func VerifC07DigestV2()      { verifC07Adjacent(2, false, 1) }
func VerifC07IdV2()          { verifC07Adjacent(2, true, 1) }

// verifC07Args: two transactions that agree everywhere except in the argument map of their contract
// request: two entries each, keys (1..2 bytes, distinct) and values (0..2 bytes) arbitrary. Equal
// digests must imply equal maps (no bytes move between a key, its value and the neighbouring entry).
func verifC07Args(version int32, includeSigns bool) {
	mk := func(tag string) (*pb.Transaction, [2][]byte, [2][]byte) {
		t := verifSkeleton(version)
		for i, f := range verifFields() {
			f.set(t, []byte{byte('a' + i%20)})
		}
		var ks, vs [2][]byte
		args := map[string][]byte{}
		for i := 0; i < 2; i++ {
			ks[i] = verifBytes(tag+".key", 1+vrt.Choice("key-len", 2), version < 3)
			vs[i] = vrt.Bytes(tag+".val", vrt.Choice("val-len", 3))
		}
		vrt.Assume(string(ks[0]) != string(ks[1]))
		args[string(ks[0])] = vs[0]
		args[string(ks[1])] = vs[1]
		t.ContractRequests[0].Args = args
		return t, ks, vs
	}
	t, tk, tv := mk("a")
	u, uk, uv := mk("b")
	var dt, du []byte
	if includeSigns {
		dt, _ = MakeTransactionID(t)
		du, _ = MakeTransactionID(u)
	} else {
		dt, _ = MakeTxDigestHash(t)
		du, _ = MakeTxDigestHash(u)
	}
	eq := verifSame(dt, du)
	// the maps are equal iff they hold the same two pairs, in either order
	same := func(i, j int) bool { return verifSame(tk[i], uk[j]) && verifSame(tv[i], uv[j]) }
	equalMaps := same(0, 0) && same(1, 1) || same(0, 1) && same(1, 0)
	vrt.Cover("digests-equal", eq)
	vrt.Cover("digests-differ", !eq)
	vrt.Assert(!eq || equalMaps, "equal-digests-imply-equal-argument-maps")
}

func VerifC07ArgsV3() { verifC07Args(3, false) }
