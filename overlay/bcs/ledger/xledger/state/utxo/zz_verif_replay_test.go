package utxo

import (
	"testing"

	"github.com/xuperchain/xupercore/zzverif/vrt"
)

func TestVerifReplay(t *testing.T) {
	vrt.RunReplay(t, map[string]func(){
		"VerifC12LocksQuick":    VerifC12LocksQuick,
		"VerifC12LocksThorough": VerifC12LocksThorough,
		"VerifC12LocksPartial":  VerifC12LocksPartial,
	})
}
