package utxo

// Harness for property C12, lock protocol part. Injected by overlay from /verif.

import (
	"sync"

	"github.com/xuperchain/xupercore/zzverif/vrt"
)

type verifHolder struct {
	thread int
	excl   bool
}

// verifC12Locks: T threads, each with a lock set of 1..2 keys over {a,b}
// (key and shared/exclusive mode are solver variables), run
//
//	TryLock(set); if acquired: critical section; Unlock(acquired)
//
// exactly as doTxSync does (Unlock of what was acquired also on failure),
// under every interleaving of the synchronisation operations within the
// preemption bound. Inside the critical section no key may be held
// exclusively together with any other holder; afterwards the lock table is empty.
func verifC12Locks(T int, maxKeys int, keyHi byte) {
	sp := NewSpinLock()
	holders := map[string][]verifHolder{}
	var wg sync.WaitGroup
	sets := make([][]*LockKey, T)
	for t := 0; t < T; t++ {
		n := 1 + vrt.Choice("nkeys", maxKeys)
		var prev byte
		for i := 0; i < n; i++ {
			k := vrt.Byte("key")
			vrt.Assume(k >= 'a' && k <= keyHi && k > prev) // sorted, de-duplicated like ExtractLockKeys
			prev = k
			typ := int(vrt.Int("mode", sharedLock, exclusiveLock))
			sets[t] = append(sets[t], &LockKey{key: string([]byte{k}), lockType: typ})
		}
	}
	acquiredAll := 0
	vrt.ExploreSchedules(true)
	for t := 0; t < T; t++ {
		wg.Add(1)
		go func(t int) {
			defer wg.Done()
			got, ok := sp.TryLock(sets[t])
			if ok {
				acquiredAll++
				for _, lk := range got {
					for _, h := range holders[lk.key] {
						vrt.Assert(!h.excl && lk.lockType != exclusiveLock, "no-key-held-exclusively-together-with-another-holder")
					}
					holders[lk.key] = append(holders[lk.key], verifHolder{t, lk.lockType == exclusiveLock})
				}
				vrt.Yield() // the critical section (pool check, apply, write) has its own synchronisation points
				for _, lk := range got {
					hs := holders[lk.key]
					for i := range hs {
						if hs[i].thread == t {
							holders[lk.key] = append(hs[:i:i], hs[i+1:]...)
							break
						}
					}
				}
			}
			sp.Unlock(got)
		}(t)
	}
	wg.Wait()
	vrt.ExploreSchedules(false)
	vrt.Cover("some-thread-acquired", acquiredAll > 0)
	vrt.Cover("some-thread-refused", acquiredAll < T)
	vrt.Assert(!sp.IsLocked("a") && !sp.IsLocked("b"), "lock-table-empty-when-all-threads-are-done")
}

func VerifC12LocksQuick()    { verifC12Locks(3, 1, 'a') }
func VerifC12LocksThorough() { verifC12Locks(3, 1, 'b') }

// two-key lock sets over {a,b}: partial acquisition followed by refusal is reachable
func VerifC12LocksPartial() { verifC12Locks(3, 2, 'b') }
