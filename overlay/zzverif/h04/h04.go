// Package h04: harness for property C04 (ledger main-chain integrity). Injected by overlay from /verif.
package h04

import (
	"github.com/golang/protobuf/proto"

	pb "github.com/xuperchain/xupercore/bcs/ledger/xledger/xldgpb"
	"github.com/xuperchain/xupercore/zzverif/vrt"
	"github.com/xuperchain/xupercore/zzverif/vrt/vkit"
)

// oracle: a list-based block tree
type node struct {
	id      string
	parent  int // index, -1 for genesis
	height  int64
	txs     []string
	order   int // confirmation order
	blk     *pb.InternalBlock
	removed bool
}

type tree struct {
	nodes   []*node
	tip     int
	refused [][]byte          // ids of blocks the ledger refused: never stored, whatever is confirmed later
	ghost   []string          // transactions that only refused blocks carried
	desc    map[string][]byte // transaction id -> its (arbitrary) description bytes
}

func (t *tree) trunk() []int {
	var path []int
	for i := t.tip; i >= 0; i = t.nodes[i].parent {
		path = append([]int{i}, path...)
	}
	return path
}

func (t *tree) inTrunk(i int) bool {
	for _, x := range t.trunk() {
		if x == i {
			return true
		}
	}
	return false
}

func checkAll(e *vkit.Env, t *tree, when string) {
	l := e.L
	meta := l.GetMeta()
	tip := t.nodes[t.tip]
	vrt.Assert(string(meta.TipBlockid) == tip.id, "meta-tip-is-oracle-tip")
	vrt.Assert(meta.TrunkHeight == tip.height, "meta-height-is-tip-height")
	vrt.Assert(string(meta.RootBlockid) == t.nodes[0].id, "meta-root-is-genesis")
	trunk := t.trunk()
	for i, n := range t.nodes {
		if n.removed {
			vrt.Assert(!l.ExistBlock([]byte(n.id)), "truncated-block-is-gone")
			continue
		}
		b, err := l.QueryBlockHeader([]byte(n.id))
		vrt.Assert(err == nil, "stored-block-is-found")
		if err != nil {
			continue
		}
		// the full block (served through the block cache) agrees with the header
		if fb, ferr := l.QueryBlock([]byte(n.id)); ferr == nil {
			vrt.Assert(fb.InTrunk == b.InTrunk && fb.Height == b.Height && string(fb.NextHash) == string(b.NextHash) && string(fb.PreHash) == string(b.PreHash), "full-block-agrees-with-header")
		} else {
			vrt.Assert(false, "stored-block-is-found")
		}
		in := t.inTrunk(i)
		vrt.Assert(b.InTrunk == in, "in-trunk-flag-matches-main-chain")
		vrt.Assert(b.Height == n.height, "height-is-parent-height-plus-one")
		if n.parent >= 0 {
			vrt.Assert(string(b.PreHash) == t.nodes[n.parent].id, "previous-link")
		}
		if in {
			// next link: the following main-chain block, none for the tip
			var next string
			for k, x := range trunk {
				if x == i && k+1 < len(trunk) {
					next = t.nodes[trunk[k+1]].id
				}
			}
			vrt.Assert(string(b.NextHash) == next, "next-link-follows-main-chain")
		}
	}
	// branch tips: exactly the stored blocks nothing stored builds on
	if tips, err := l.GetBranchInfo([]byte{}, -1); err == nil {
		got := map[string]bool{}
		for _, x := range tips {
			got[x] = true
		}
		ok := true
		nLeaves := 0
		for i, n := range t.nodes {
			if n.removed {
				ok = ok && !got[n.id]
				continue
			}
			leaf := true
			for _, m := range t.nodes {
				if !m.removed && m.parent == i {
					leaf = false
				}
			}
			if leaf {
				nLeaves++
			}
			ok = ok && got[n.id] == leaf
		}
		vrt.Assert(ok && len(got) == nLeaves, "branch-tips-are-the-leaves-of-the-stored-tree")
	} else {
		vrt.Assert(false, "branch-tips-are-the-leaves-of-the-stored-tree")
	}
	// by height: exactly the main chain, nothing above the tip
	for h := int64(0); h <= tip.height+1; h++ {
		b, err := l.QueryBlockByHeight(h)
		if h <= tip.height {
			vrt.Assert(err == nil && string(b.Blockid) == t.nodes[trunk[h]].id, "block-by-height-is-main-chain-block")
		} else {
			vrt.Assert(err != nil, "no-block-above-tip-height")
		}
	}
	// transactions: looked up on the main-chain block that contains them
	seen := map[string]bool{}
	for _, n := range t.nodes {
		for _, txid := range n.txs {
			if seen[txid] {
				continue
			}
			seen[txid] = true
			holder := -1
			for _, x := range trunk {
				for _, y := range t.nodes[x].txs {
					if y == txid {
						holder = x
					}
				}
			}
			vrt.Assert(l.IsTxInTrunk([]byte(txid)) == (holder >= 0), "tx-in-trunk-iff-on-main-chain")
			if holder >= 0 {
				tx, err := l.QueryTransaction([]byte(txid))
				vrt.Assert(err == nil && string(tx.Blockid) == t.nodes[holder].id, "tx-maps-to-its-main-chain-block")
				if d, ok := t.desc[txid]; ok && err == nil {
					// the stored content is what was confirmed, whatever was reorganised in between
					vrt.Assert(string(tx.Desc) == string(d), "tx-content-is-what-was-confirmed")
				}
			}
		}
	}
	for _, id := range t.refused {
		vrt.Assert(!l.ExistBlock(id), "refused-block-is-never-stored")
		_, err := l.QueryBlockHeader(id)
		vrt.Assert(err != nil, "refused-block-is-never-served")
	}
	for _, txid := range t.ghost {
		vrt.Assert(!l.IsTxInTrunk([]byte(txid)), "transaction-of-a-refused-block-is-not-on-the-main-chain")
	}
	_ = when
}

// lca and the two legs between blocks x and y
func (t *tree) legs(x, y int) (undo []int, todo []int) {
	anc := map[int]bool{}
	for i := y; i >= 0; i = t.nodes[i].parent {
		anc[i] = true
	}
	i := x
	for ; !anc[i]; i = t.nodes[i].parent {
		undo = append(undo, i)
	}
	for j := y; j != i; j = t.nodes[j].parent {
		todo = append(todo, j)
	}
	return
}

func checkPaths(e *vkit.Env, t *tree) {
	for x := range t.nodes {
		for y := range t.nodes {
			if t.nodes[x].removed || t.nodes[y].removed {
				continue
			}
			undo, todo, err := e.L.FindUndoAndTodoBlocks([]byte(t.nodes[x].id), []byte(t.nodes[y].id))
			vrt.Assert(err == nil, "undo-todo-path-found")
			if err != nil {
				continue
			}
			wu, wt := t.legs(x, y)
			vrt.Assert(len(undo) == len(wu) && len(todo) == len(wt), "undo-todo-lengths-match-lowest-common-ancestor")
			if len(undo) == len(wu) && len(todo) == len(wt) {
				for i := range wu {
					vrt.Assert(string(undo[i].Blockid) == t.nodes[wu[i]].id, "undo-leg-newest-first")
				}
				for i := range wt {
					vrt.Assert(string(todo[i].Blockid) == t.nodes[wt[i]].id, "todo-leg-newest-first")
				}
			}
		}
	}
}

// run: N blocks after genesis; the parent of each is an arbitrary earlier
// block; each carries a coinbase and optionally a shared transaction.
func run(N int, truncate bool) { runWith(N, truncate, false) }

func runWith(N int, truncate, invalid bool) {
	e := vkit.NewEnv("c04", vkit.Genesis("0", "100", "50"), nil)
	t := &tree{desc: map[string][]byte{}}
	t.nodes = append(t.nodes, &node{id: string(e.Root.Blockid), parent: -1, height: 0, txs: []string{string(e.RootTx.Txid)}, blk: e.Root})
	checkAll(e, t, "genesis")
	shared := &pb.Transaction{Txid: []byte("shared-tx"), Version: 1, Desc: []byte("s")}
	for i := 1; i <= N; i++ {
		p := vrt.Choice("parent", len(t.nodes))
		if invalid {
			// before the i-th valid block: optionally a block the ledger must refuse
			tag := string([]byte{byte('0' + i)})
			switch vrt.Choice("refused-kind", 4) {
			case 1: // two coinbases
				bad := vkit.Block([]byte(t.nodes[p].id), int32(40+i), []*pb.Transaction{vkit.Coinbase("xa"+tag, "M", []byte{7}), vkit.Coinbase("xb"+tag, "M", []byte{7})})
				vrt.Assert(!e.L.ConfirmBlock(bad, false).Succ, "block-with-two-coinbases-refused")
				t.refused = append(t.refused, bad.Blockid)
				t.ghost = append(t.ghost, "xa"+tag, "xb"+tag)
				checkAll(e, t, "refused")
			case 2: // unknown parent
				bad := vkit.Block([]byte("no-such-parent"), int32(50+i), []*pb.Transaction{vkit.Coinbase("xc"+tag, "M", []byte{7})})
				vrt.Assert(!e.L.ConfirmBlock(bad, false).Succ, "block-with-unknown-parent-refused")
				t.refused = append(t.refused, bad.Blockid)
				t.ghost = append(t.ghost, "xc"+tag)
				checkAll(e, t, "refused")
			case 3: // a stored block submitted again: whatever the ledger answers, nothing may change
				if p > 0 {
					dup := proto.Clone(t.nodes[p].blk).(*pb.InternalBlock)
					st := e.L.ConfirmBlock(dup, false)
					vrt.Cover("duplicate-submitted", true)
					_ = st
					checkAll(e, t, "duplicate")
				}
			}
		}
		withShared := vrt.Choice("shared", 2) == 1
		cb := vkit.Coinbase("cb"+string([]byte{byte('0' + i)}), "M", []byte{7})
		cb.Desc = vrt.Bytes("desc", 2) // arbitrary content
		t.desc[string(cb.Txid)] = cb.Desc
		txs := []*pb.Transaction{cb}
		ids := []string{string(cb.Txid)}
		if withShared {
			txs = append(txs, &pb.Transaction{Txid: shared.Txid, Version: 1, Desc: shared.Desc})
			ids = append(ids, string(shared.Txid))
		}
		b := vkit.Block([]byte(t.nodes[p].id), int32(i), txs)
		n := &node{id: string(b.Blockid), parent: p, height: t.nodes[p].height + 1, txs: ids, order: i, blk: b}
		// would the shared tx sit twice on the new main chain?
		dup := false
		if withShared {
			for a := p; a >= 0; a = t.nodes[a].parent {
				for _, y := range t.nodes[a].txs {
					if y == string(shared.Txid) {
						dup = true
					}
				}
			}
		}
		// A block repeating a transaction of its own ancestors is outside C04's statement
		// (which transaction may be included is C03's subject); such blocks are not generated.
		vrt.Assume(!dup)
		st := e.L.ConfirmBlock(b, false)
		becomesTip := n.height > t.nodes[t.tip].height
		vrt.Assert(st.Succ, "valid-block-confirmed")
		if !st.Succ {
			return
		}
		t.nodes = append(t.nodes, n)
		if becomesTip {
			t.tip = len(t.nodes) - 1
		}
		vrt.Cover("fork", st.Split)
		if N >= 3 {
			vrt.Cover("trunk-switch", st.TrunkSwitch)
		}
		checkAll(e, t, "confirm")
	}
	if invalid {
		// one more refused block at the end, on any stored block: on a side-branch tip it would have
		// reorganised the chain had it been valid
		p := vrt.Choice("last-refused-parent", len(t.nodes))
		bad := vkit.Block([]byte(t.nodes[p].id), 77, []*pb.Transaction{vkit.Coinbase("xy", "M", []byte{7}), vkit.Coinbase("xz", "M", []byte{7})})
		vrt.Assert(!e.L.ConfirmBlock(bad, false).Succ, "block-with-two-coinbases-refused")
		vrt.Cover("refused-block-would-have-reorganised", t.nodes[p].height+1 > t.nodes[t.tip].height && p != t.tip)
		t.refused = append(t.refused, bad.Blockid)
		t.ghost = append(t.ghost, "xy", "xz")
		checkAll(e, t, "refused-last")
	}
	checkPaths(e, t)
	if truncate {
		// truncation to any main-chain block: every stored block above the target's height goes
		// (on every branch), the target becomes the tip
		trunk := t.trunk()
		k := vrt.Choice("truncate-to", len(trunk))
		target := trunk[k]
		err := e.L.Truncate([]byte(t.nodes[target].id))
		vrt.Assert(err == nil, "truncation-succeeds")
		if err != nil {
			return
		}
		for _, n := range t.nodes {
			if n.height > t.nodes[target].height {
				n.removed = true
			}
		}
		t.tip = target
		vrt.Cover("truncation-removed-blocks", k+1 < len(trunk))
		checkAll(e, t, "truncate")
		// the chain goes on: from the new tip, or from any other block still stored (a side branch
		// cut to the same height may take over); a removed block is no parent any more
		pp := target
		if anyParentAfterTruncate {
			pp = vrt.Choice("parent-after-truncate", len(t.nodes))
		}
		cb := vkit.Coinbase("cbT", "M", []byte{7})
		b := vkit.Block([]byte(t.nodes[pp].id), 99, []*pb.Transaction{cb})
		st := e.L.ConfirmBlock(b, false)
		if t.nodes[pp].removed {
			vrt.Assert(!st.Succ, "child-of-truncated-block-refused")
			vrt.Cover("child-of-truncated-block-submitted", true)
			t.refused = append(t.refused, b.Blockid)
			t.ghost = append(t.ghost, "cbT")
			checkAll(e, t, "child-of-truncated")
		} else {
			vrt.Assert(st.Succ, "valid-block-confirmed")
			if !st.Succ {
				return
			}
			nn := &node{id: string(b.Blockid), parent: pp, height: t.nodes[pp].height + 1, txs: []string{string(cb.Txid)}, order: 99, blk: b}
			t.nodes = append(t.nodes, nn)
			if nn.height > t.nodes[t.tip].height {
				t.tip = len(t.nodes) - 1
			}
			if anyParentAfterTruncate {
				vrt.Cover("side-branch-takes-over-after-truncate", pp != target && t.tip == len(t.nodes)-1)
			}
			checkAll(e, t, "extend-after-truncate")
		}
	}
	// a reopened instance answers the same
	e2 := *e
	e2.L = e.Reopen()
	checkAll(&e2, t, "reopen")
}

func VerifC04Quick()    { run(3, false) }
func VerifC04Thorough() { run(5, false) }
func VerifC04Truncate() { run(3, true) }

// anyParentAfterTruncate: the block confirmed after a truncation goes on any block of the tree
// (stored or removed) instead of the new tip only.
var anyParentAfterTruncate bool

func VerifC04TruncateThenAny() {
	anyParentAfterTruncate = true
	run(3, true)
}
func VerifC04Refused()  { runWith(2, false, true) }
func VerifC04Refused3() { runWith(3, false, true) }

// refusedElsewhere: g <- b1 and a second block on g or b1, then a block the ledger refuses (two coinbases)
// on any stored block, then a valid block on any stored block - not necessarily the same one - and last a
// block naming the refused block as its parent.  What the refused block left in memory must not leak
// into what the later blocks write.
func refusedElsewhere() {
	e := vkit.NewEnv("c04", vkit.Genesis("0", "100", "50"), nil)
	t := &tree{desc: map[string][]byte{}}
	t.nodes = append(t.nodes, &node{id: string(e.Root.Blockid), parent: -1, height: 0, txs: []string{string(e.RootTx.Txid)}, blk: e.Root})
	add := func(p int, i int) bool {
		cb := vkit.Coinbase("cb"+string([]byte{byte('0' + i)}), "M", []byte{7})
		t.desc[string(cb.Txid)] = cb.Desc
		b := vkit.Block([]byte(t.nodes[p].id), int32(i), []*pb.Transaction{cb})
		n := &node{id: string(b.Blockid), parent: p, height: t.nodes[p].height + 1, txs: []string{string(cb.Txid)}, order: i, blk: b}
		st := e.L.ConfirmBlock(b, false)
		vrt.Assert(st.Succ, "valid-block-confirmed")
		if !st.Succ {
			return false
		}
		becomesTip := n.height > t.nodes[t.tip].height
		t.nodes = append(t.nodes, n)
		if becomesTip {
			t.tip = len(t.nodes) - 1
		}
		return true
	}
	if !add(0, 1) || !add(vrt.Choice("second-parent", 2), 2) {
		return
	}
	checkAll(e, t, "confirm")
	rp := vrt.Choice("refused-parent", len(t.nodes))
	bad := vkit.Block([]byte(t.nodes[rp].id), 77, []*pb.Transaction{vkit.Coinbase("xy", "M", []byte{7}), vkit.Coinbase("xz", "M", []byte{7})})
	vrt.Assert(!e.L.ConfirmBlock(bad, false).Succ, "block-with-two-coinbases-refused")
	vrt.Cover("refused-block-would-have-reorganised", t.nodes[rp].height+1 > t.nodes[t.tip].height && rp != t.tip)
	t.refused = append(t.refused, bad.Blockid)
	t.ghost = append(t.ghost, "xy", "xz")
	checkAll(e, t, "refused")
	if !add(vrt.Choice("third-parent", len(t.nodes)), 3) {
		return
	}
	checkAll(e, t, "confirm-after-refused")
	orphan := vkit.Block(bad.Blockid, 78, []*pb.Transaction{vkit.Coinbase("xo", "M", []byte{7})})
	vrt.Assert(!e.L.ConfirmBlock(orphan, false).Succ, "child-of-refused-block-refused")
	t.refused = append(t.refused, orphan.Blockid)
	t.ghost = append(t.ghost, "xo")
	checkAll(e, t, "child-of-refused")
	checkPaths(e, t)
}
func VerifC04RefusedElsewhere() { refusedElsewhere() }

// truncateTwice: main chain g <- a1 <- a2 <- a3 and a side branch g <- b1 <- b2; two truncations in a
// row to main-chain blocks (the second at or below the first), every query re-checked after each.
func truncateTwice() {
	e := vkit.NewEnv("c04t", vkit.Genesis("0", "100", "50"), nil)
	t := &tree{desc: map[string][]byte{}}
	t.nodes = append(t.nodes, &node{id: string(e.Root.Blockid), parent: -1, height: 0, txs: []string{string(e.RootTx.Txid)}, blk: e.Root})
	add := func(parent int, tag string, nonce int32) int {
		cb := vkit.Coinbase("cb"+tag, "M", []byte{7})
		b := vkit.Block([]byte(t.nodes[parent].id), nonce, []*pb.Transaction{cb})
		vrt.Assert(e.L.ConfirmBlock(b, false).Succ, "valid-block-confirmed")
		n := &node{id: string(b.Blockid), parent: parent, height: t.nodes[parent].height + 1, txs: []string{string(cb.Txid)}, blk: b}
		t.nodes = append(t.nodes, n)
		if n.height > t.nodes[t.tip].height {
			t.tip = len(t.nodes) - 1
		}
		return len(t.nodes) - 1
	}
	a1 := add(0, "a1", 1)
	a2 := add(a1, "a2", 2)
	add(a2, "a3", 3)
	b1 := add(0, "b1", 4)
	add(b1, "b2", 5)
	checkAll(e, t, "built")
	for round := 0; round < 2; round++ {
		trunk := t.trunk()
		k := vrt.Choice("truncate-to", len(trunk))
		target := trunk[k]
		err := e.L.Truncate([]byte(t.nodes[target].id))
		vrt.Assert(err == nil, "truncation-succeeds")
		if err != nil {
			return
		}
		for _, n := range t.nodes {
			if n.height > t.nodes[target].height {
				n.removed = true
			}
		}
		t.tip = target
		checkAll(e, t, "truncate")
	}
	e2 := *e
	e2.L = e.Reopen()
	checkAll(&e2, t, "reopen")
}

func VerifC04TruncateTwice() { truncateTwice() }
