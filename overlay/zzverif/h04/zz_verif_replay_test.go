package h04

import (
	"testing"

	"github.com/xuperchain/xupercore/zzverif/vrt"
)

func TestVerifReplay(t *testing.T) {
	vrt.RunReplay(t, map[string]func(){
		"VerifC04Quick":            VerifC04Quick,
		"VerifC04Thorough":         VerifC04Thorough,
		"VerifC04Truncate":         VerifC04Truncate,
		"VerifC04Refused":          VerifC04Refused,
		"VerifC04TruncateThenAny":  VerifC04TruncateThenAny,
		"VerifC04Refused3":         VerifC04Refused3,
		"VerifC04RefusedElsewhere": VerifC04RefusedElsewhere,
		"VerifC04TruncateTwice":    VerifC04TruncateTwice,
	})
}
