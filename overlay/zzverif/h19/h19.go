// Package h19: harness for property C19 (governance tokens). Injected by overlay from /verif.
package h19

import (
	"encoding/json"
	"math/big"

	xledger "github.com/xuperchain/xupercore/bcs/ledger/xledger/ledger"
	"github.com/xuperchain/xupercore/kernel/contract"
	"github.com/xuperchain/xupercore/kernel/contract/proposal/govern_token"
	"github.com/xuperchain/xupercore/kernel/contract/proposal/utils"
	"github.com/xuperchain/xupercore/zzverif/vrt"
	"github.com/xuperchain/xupercore/zzverif/vrt/vkctx"
)

var accounts = []string{"A", "B", "C"} // C is fresh (not in the predistribution)

type snapshot struct {
	total  []*big.Int
	locked [][2]*big.Int // ordinary, tdpos
	exists []bool
}

func readBalance(w *vkctx.World, acc string) (*utils.GovernTokenBalance, bool) {
	buf, ok := w.Store[utils.GetGovernTokenBucket()+"/"+utils.MakeAccountBalanceKey(acc)]
	if !ok {
		return nil, false
	}
	b := utils.NewGovernTokenBalance()
	if err := json.Unmarshal(buf, b); err != nil {
		vrt.Assert(false, "stored-balance-decodes")
		return nil, false
	}
	return b, true
}

func lockOf(b *utils.GovernTokenBalance, typ string) *big.Int {
	if v, ok := b.LockedBalance[typ]; ok && v != nil {
		return v
	}
	return big.NewInt(0)
}

func snap(w *vkctx.World) snapshot {
	var s snapshot
	for _, a := range accounts {
		b, ok := readBalance(w, a)
		if !ok {
			s.total = append(s.total, big.NewInt(0))
			s.locked = append(s.locked, [2]*big.Int{big.NewInt(0), big.NewInt(0)})
			s.exists = append(s.exists, false)
			continue
		}
		s.total = append(s.total, b.TotalBalance)
		s.locked = append(s.locked, [2]*big.Int{lockOf(b, utils.GovernTokenTypeOrdinary), lockOf(b, utils.GovernTokenTypeTDPOS)})
		s.exists = append(s.exists, true)
	}
	return s
}

func sum(xs []*big.Int) *big.Int {
	t := big.NewInt(0)
	for _, x := range xs {
		t.Add(t, x)
	}
	return t
}

func decimal(x *big.Int) []byte { return []byte(x.String()) }

// nat returns an arbitrary natural number: below 256^nbytes, or (nbytes == 0) a single decimal digit,
// which keeps the number of decimal-length classes of the JSON records small in multi-step runs.
func nat(name string, nbytes int) *big.Int {
	if nbytes == 0 {
		return big.NewInt(vrt.Int(name, 0, 9))
	}
	return vrt.BigNat(name, nbytes)
}

func run(L int, nbytes int) {
	qa := nat("quotaA", nbytes)
	qb := nat("quotaB", nbytes)
	km := govern_token.NewKernContractMethod("xuper", 1000, []xledger.Predistribution{
		{Address: "A", Quota: qa.String()}, {Address: "B", Quota: qb.String()}})
	w := vkctx.NewWorld()
	supply := new(big.Int).Add(qa, qb)

	ctx := w.NewCtx("A", "", nil)
	_, err := km.InitGovernTokens(ctx)
	vrt.Assert(err == nil, "init-succeeds")
	ctx.Commit()
	s0 := snap(w)
	vrt.Assert(sum(s0.total).Cmp(supply) == 0, "init-distributes-total-supply")

	for step := 0; step < L; step++ {
		before := snap(w)
		op := vrt.Choice("op", 4)
		amt := nat("amount", nbytes)
		var callErr error
		changedLockOf := -1
		switch op {
		case 0: // transfer, any sender / receiver (self and fresh included)
			from := vrt.Choice("from", 3)
			to := vrt.Choice("to", 3)
			c := w.NewCtx(accounts[from], "", map[string][]byte{"to": []byte(accounts[to]), "amount": decimal(amt)})
			_, callErr = km.TransferGovernTokens(c)
			if callErr == nil {
				c.Commit()
				vrt.Cover("transfer-ok", true)
				vrt.Known("self-transfer", from == to)
				after := snap(w)
				// the sender may not go below any of its locks
				vrt.Assert(after.total[from].Cmp(before.locked[from][0]) >= 0, "transfer-keeps-sender-above-ordinary-lock")
				vrt.Assert(after.total[from].Cmp(before.locked[from][1]) >= 0, "transfer-keeps-sender-above-tdpos-lock")
			}
		case 1, 2: // lock / unlock through a kernel contract or (not allowed) directly by a user
			acc := vrt.Choice("account", 3)
			caller := []string{utils.ProposalKernelContract, utils.TDPOSKernelContract, "", "somecontract"}[vrt.Choice("caller", 4)]
			typ := []string{utils.GovernTokenTypeOrdinary, utils.GovernTokenTypeTDPOS, "bogus"}[vrt.Choice("locktype", 3)]
			c := w.NewCtx(accounts[acc], caller, map[string][]byte{"from": []byte(accounts[acc]), "amount": decimal(amt), "lock_type": []byte(typ)})
			if op == 1 {
				_, callErr = km.LockGovernTokens(c)
			} else {
				_, callErr = km.UnLockGovernTokens(c)
			}
			if callErr == nil {
				c.Commit()
				changedLockOf = acc
				vrt.Cover("lock-or-unlock-ok", true)
				vrt.Assert(caller == utils.ProposalKernelContract || caller == utils.TDPOSKernelContract || caller == utils.XPOSKernelContract, "direct-lock-unlock-refused")
			}
		case 3: // query
			acc := vrt.Choice("account", 3)
			c := w.NewCtx("A", "", map[string][]byte{"account": []byte(accounts[acc])})
			_, callErr = km.QueryAccountGovernTokens(c)
			if callErr == nil {
				c.Commit()
			}
		}
		after := snap(w)
		// conservation
		vrt.Assert(sum(after.total).Cmp(supply) == 0, "sum-of-balances-equals-total-supply")
		// locks change only through lock / unlock naming that account
		for i := range accounts {
			if i == changedLockOf {
				continue
			}
			vrt.Assert(after.locked[i][0].Cmp(before.locked[i][0]) == 0, "ordinary-lock-changed-only-by-lock-unlock")
			vrt.Assert(after.locked[i][1].Cmp(before.locked[i][1]) == 0, "tdpos-lock-changed-only-by-lock-unlock")
		}
		// a failed call changes nothing
		if callErr != nil {
			for i := range accounts {
				vrt.Assert(after.total[i].Cmp(before.total[i]) == 0 && after.exists[i] == before.exists[i], "failed-call-changes-nothing")
			}
		}
	}
	_ = contract.Limits{}
}

func VerifC19Quick()    { run(2, 0) }
func VerifC19Thorough() { run(3, 0) }
func VerifC19Wide()     { run(1, 3) }
