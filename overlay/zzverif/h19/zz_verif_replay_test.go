package h19

import (
	"testing"

	"github.com/xuperchain/xupercore/zzverif/vrt"
)

func TestVerifReplay(t *testing.T) {
	vrt.RunReplay(t, map[string]func(){
		"VerifC19Quick":    VerifC19Quick,
		"VerifC19Thorough": VerifC19Thorough,
		"VerifC19Wide":     VerifC19Wide,
	})
}
