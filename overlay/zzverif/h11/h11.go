// Package h11: harness for property C11 (access-control evaluation). Injected by overlay from /verif.
package h11

import (
	"errors"

	aclu "github.com/xuperchain/xupercore/kernel/permission/acl/utils"
	pb "github.com/xuperchain/xupercore/protos"
	"github.com/xuperchain/xupercore/zzverif/vrt"
)

const (
	X = "XC1111111111111111@xuper"
	Y = "XC2222222222222222@xuper"
)

type mgr struct {
	acl map[string]*pb.Acl
}

func (m *mgr) GetAccountACL(name string) (*pb.Acl, error) {
	if a, ok := m.acl[name]; ok {
		return a, nil
	}
	return nil, nil // plain addresses have no rule
}
func (m *mgr) GetContractMethodACL(contractName, methodName string) (*pb.Acl, error) {
	if a, ok := m.acl[contractName+"."+methodName]; ok {
		return a, nil
	}
	return nil, errors.New("no method acl")
}
func (m *mgr) GetAccountAddresses(string) ([]string, error) { return nil, nil }

// members of X's rule and of Y's rule
var xMembers = []string{"a", "b", "c", Y}
var yMembers = []string{"a", "b"}

// universe of signer URIs: members, member of nested account, outsider d,
// a path through another account, a bare address, the empty string
var universe = []string{X + "/a", X + "/b", X + "/c", X + "/d", X + "/" + Y + "/a", X + "/" + Y + "/b", X + "/" + Y, Y + "/a", "a", ""}

type ruleT struct {
	threshold bool
	w         map[string]float64
	accept    float64
	sets      [][]string
}

func symRule(tag string, members []string, nonneg bool, maxSets int) ruleT {
	r := ruleT{w: map[string]float64{}}
	r.threshold = vrt.Choice(tag+"-kind", 2) == 0
	if r.threshold {
		for _, mname := range members {
			w := vrt.Dyadic(tag+"-w-"+mname[:1], 2, 4)
			if nonneg {
				vrt.Assume(w >= 0)
			}
			r.w[mname] = w
		}
		r.accept = vrt.Dyadic(tag+"-accept", 2, 8)
		return r
	}
	nsets := vrt.Choice(tag+"-nsets", maxSets+1) // 0..maxSets sets
	for s := 0; s < nsets; s++ {
		var set []string
		for _, mname := range members {
			if vrt.Choice(tag+"-in", 2) == 1 {
				set = append(set, mname)
			}
		}
		r.sets = append(r.sets, set)
	}
	return r
}

func (r ruleT) acl() *pb.Acl {
	if r.threshold {
		return &pb.Acl{Pm: &pb.PermissionModel{Rule: pb.PermissionRule_SIGN_THRESHOLD, AcceptValue: r.accept}, AksWeight: r.w}
	}
	sets := map[string]*pb.AkSet{}
	for i, s := range r.sets {
		sets[string([]byte{byte('0' + i)})] = &pb.AkSet{Aks: s}
	}
	return &pb.Acl{Pm: &pb.PermissionModel{Rule: pb.PermissionRule_SIGN_AKSET}, AkSets: &pb.AkSets{Sets: sets}}
}

// satisfied: the property's sentence. signed = set of DISTINCT member names
// that count as verified signers of this rule.
func (r ruleT) satisfied(signed map[string]bool) bool {
	if r.threshold {
		var sum float64
		for name, w := range r.w {
			if signed[name] {
				sum += w
			}
		}
		return sum >= r.accept
	}
	for _, set := range r.sets {
		if len(set) == 0 {
			continue
		}
		all := true
		for _, name := range set {
			if !signed[name] {
				all = false
			}
		}
		if all {
			return true
		}
	}
	return false
}

func oracle(rx, ry ruleT, signers []string) bool {
	direct := map[string]bool{}
	ySigned := map[string]bool{}
	yPresent := false
	for _, s := range signers {
		switch s {
		case X + "/a":
			direct["a"] = true
		case X + "/b":
			direct["b"] = true
		case X + "/c":
			direct["c"] = true
		case X + "/d":
			direct["d"] = true // outsider: not in any rule, contributes nothing
		case X + "/" + Y + "/a":
			yPresent = true
			ySigned["a"] = true
		case X + "/" + Y + "/b":
			yPresent = true
			ySigned["b"] = true
		case X + "/" + Y:
			yPresent = true
		}
	}
	if yPresent && ry.satisfied(ySigned) {
		direct[Y] = true
	}
	return rx.satisfied(direct)
}

func pick(k int) []string {
	var signers []string
	for i := 0; i < k; i++ {
		signers = append(signers, universe[vrt.Choice("signer", len(universe))])
	}
	return signers
}

// verifEval: IdentifyAccount == specification, for symbolic weights / thresholds.
func verifEval(maxSigners, maxSets int) {
	rx := symRule("X", xMembers, false, maxSets)
	ry := symRule("Y", yMembers, false, maxSets)
	m := &mgr{acl: map[string]*pb.Acl{X: rx.acl(), Y: ry.acl()}}
	signers := pick(vrt.Choice("k", maxSigners+1))
	got, err := aclu.IdentifyAccount(m, X, signers)
	vrt.Assert(err == nil, "evaluation-does-not-fail")
	want := oracle(rx, ry, signers)
	vrt.Cover("accepted", got)
	vrt.Cover("rejected", !got)
	vrt.Assert(got == want, "evaluation-equals-specification")
}

// verifMonotone: with non-negative weights, adding a signer never turns acceptance into rejection.
func verifMonotone(maxSigners, maxSets int) {
	rx := symRule("X", xMembers, true, maxSets)
	ry := symRule("Y", yMembers, true, maxSets)
	m := &mgr{acl: map[string]*pb.Acl{X: rx.acl(), Y: ry.acl()}}
	signers := pick(vrt.Choice("k", maxSigners+1))
	extra := universe[vrt.Choice("extra", len(universe))]
	got1, err1 := aclu.IdentifyAccount(m, X, signers)
	got2, err2 := aclu.IdentifyAccount(m, X, append(append([]string{}, signers...), extra))
	vrt.Assert(err1 == nil && err2 == nil, "evaluation-does-not-fail")
	vrt.Cover("flip-to-accept", !got1 && got2)
	vrt.Assert(!got1 || got2, "adding-a-signer-never-rejects")
}

func VerifC11EvalQuick()        { verifEval(2, 1) }
func VerifC11EvalThorough()     { verifEval(2, 2) }
func VerifC11EvalDeep()         { verifEval(3, 1) }
func VerifC11MonotoneQuick()    { verifMonotone(1, 1) }
func VerifC11MonotoneThorough() { verifMonotone(1, 2) }
