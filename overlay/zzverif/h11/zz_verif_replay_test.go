package h11

import (
	"testing"

	"github.com/xuperchain/xupercore/zzverif/vrt"
)

func TestVerifReplay(t *testing.T) {
	vrt.RunReplay(t, map[string]func(){
		"VerifC11EvalQuick":        VerifC11EvalQuick,
		"VerifC11EvalThorough":     VerifC11EvalThorough,
		"VerifC11EvalDeep":         VerifC11EvalDeep,
		"VerifC11MonotoneQuick":    VerifC11MonotoneQuick,
		"VerifC11MonotoneThorough": VerifC11MonotoneThorough,
	})
}
