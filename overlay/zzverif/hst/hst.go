// Package hst: harnesses over real ledger + state machine histories
// (properties C01, C02, C17). Injected by overlay from /verif.
package hst

import (
	"math/big"
	"sync"

	"github.com/xuperchain/xupercore/bcs/ledger/xledger/state"
	pb "github.com/xuperchain/xupercore/bcs/ledger/xledger/xldgpb"
	"github.com/xuperchain/xupercore/protos"
	"github.com/xuperchain/xupercore/zzverif/vrt"
	"github.com/xuperchain/xupercore/zzverif/vrt/memdb"
	"github.com/xuperchain/xupercore/zzverif/vrt/vkit"
)

type memdbFaults = memdb.Faults

func newFaults() *memdb.Faults { return memdb.NoFaults() }

// world: a block tree built over one ledger, with symbolic amounts.
type world struct {
	e      *vkit.Env
	blocks []*pb.InternalBlock // index 0 = genesis
	parent []int
	height []int64
	award  *big.Int
	// walkable: the block's user transactions are of the kind State.Walk applies without
	// signature verification (award-only blocks); the others carry version-0 transactions
	// that only State.Play (PlayAndRepost with isRootTx) applies. Real signatures are
	// outside these harnesses.
	walkable []bool
	restA    *big.Int // amount of t1's change output
}

func (w *world) add(parent int, nonce int32, txs []*pb.Transaction) int {
	wk := true
	for _, tx := range txs {
		if !tx.Coinbase && !tx.Autogen {
			wk = false
		}
	}
	w.walkable = append(w.walkable, wk)
	b := vkit.Block(w.blocks[parent].Blockid, nonce, txs)
	st := w.e.L.ConfirmBlock(b, false)
	vrt.Assert(st.Succ, "block-confirmed-by-ledger")
	w.blocks = append(w.blocks, b)
	w.parent = append(w.parent, parent)
	w.height = append(w.height, w.height[parent]+1)
	return len(w.blocks) - 1
}

// build: genesis (A=9, B=5) and a small forked tree whose transfer amounts,
// frozen heights and key values are solver variables:
//
//	g <- b1 <- b2      b1: A pays x to B (change to A), writes k1=v1, creates k2
//	g <- c1 <- c2      b2: B pays part of x to C with a fee output, deletes k2, overwrites k1
//	g <- d1 <- d2      c1: A pays y to C frozen until height fz; c2: spends of c1's outputs; d1, d2: award only
//
// data: 0 = all amounts/values fixed, 1 = main amounts symbolic, 2 = everything symbolic
func build(window string, data int) *world {
	rich := data >= 2
	pick := func(name string, lo, hi, fixed int64) int64 {
		if rich {
			return vrt.Int(name, lo, hi)
		}
		return fixed
	}
	main := func(name string, lo, hi, fixed int64) int64 {
		if data >= 1 {
			return vrt.Int(name, lo, hi)
		}
		return fixed
	}
	e := vkit.NewEnv("hst", vkit.Genesis(window, "9", "5"), nil)
	w := &world{e: e, blocks: []*pb.InternalBlock{e.Root}, parent: []int{-1}, height: []int64{0}, award: big.NewInt(7), walkable: []bool{true}}
	root := e.RootTx.Txid
	hundred := big.NewInt(9)            // A's genesis output (single-digit amounts keep the JSON records of outputs in one length class)
	x := big.NewInt(main("x", 1, 8, 4)) // a zero output creates no unspent output that t2 / t5 could cite
	restA := new(big.Int).Sub(hundred, x)
	v1 := vrt.Bytes("v1", 1)
	vrt.Assume(v1[0] != 0)
	t1 := vkit.Tx("t1", []*protos.TxInput{vkit.In(root, 0, "A", hundred)}, []*protos.TxOutput{vkit.Out("B", x, 0), vkit.Out("A", restA, 0)})
	vkit.WithKey(t1, "bk", "k1", nil, 0, v1)
	vkit.WithKey(t1, "bk", "k2", nil, 0, []byte("two"))
	b1 := w.add(0, 1, []*pb.Transaction{vkit.Coinbase("cb1", "M", w.award.Bytes()), t1})

	z := big.NewInt(main("z", 0, 9, 2))
	fee := big.NewInt(pick("fee", 0, 9, 1))
	vrt.Assume(new(big.Int).Add(z, fee).Cmp(x) <= 0)
	restB := new(big.Int).Sub(new(big.Int).Sub(x, z), fee)
	v2 := vrt.Bytes("v2", 1)
	vrt.Assume(v2[0] != 0)
	t2 := vkit.Tx("t2", []*protos.TxInput{vkit.In([]byte("t1"), 0, "B", x)}, []*protos.TxOutput{vkit.Out("C", z, 0), vkit.Out("$", fee, 0), vkit.Out("B", restB, 0)})
	vkit.WithKey(t2, "bk", "k1", []byte("t1"), 0, v2)
	vkit.WithKey(t2, "bk", "k2", []byte("t1"), 1, []byte{0})
	// t5: two inputs of different amounts (the award of b1 and A's change), regrouped
	t5 := vkit.Tx("t5", []*protos.TxInput{vkit.In([]byte("cb1"), 0, "M", w.award), vkit.In([]byte("t1"), 1, "A", restA)}, []*protos.TxOutput{vkit.Out("A", w.award, 0), vkit.Out("M", restA, 0)})
	w.restA = restA
	w.add(b1, 2, []*pb.Transaction{vkit.Coinbase("cb2", "M", w.award.Bytes()), t2, t5})

	y := big.NewInt(main("y", 1, 9, 3)) // t6 cites the output (zero-value outputs stay covered by z)
	fz := pick("frozen", 0, 2, 1)       // thawed by height 2, where t6 spends it
	t3 := vkit.Tx("t3", []*protos.TxInput{vkit.In(root, 0, "A", hundred)}, []*protos.TxOutput{vkit.Out("C", y, fz), vkit.Out("A", new(big.Int).Sub(hundred, y), 0)})
	c1 := w.add(0, 3, []*pb.Transaction{vkit.Coinbase("cb3", "M", w.award.Bytes()), t3})
	restA3 := new(big.Int).Sub(hundred, y)
	u := big.NewInt(pick("u", 0, 9, 1))
	vrt.Assume(u.Cmp(restA3) <= 0 && restA3.Sign() > 0)
	t4 := vkit.Tx("t4", []*protos.TxInput{vkit.In([]byte("t3"), 1, "A", restA3)}, []*protos.TxOutput{vkit.Out("B", u, 0), vkit.Out("A", new(big.Int).Sub(restA3, u), 0)})
	// t6 spends the output that was frozen until fz; like a wallet it copies the frozen height into its input
	t6 := vkit.Tx("t6", []*protos.TxInput{vkit.In([]byte("t3"), 0, "C", y)}, []*protos.TxOutput{vkit.Out("B", y, 0)})
	t6.TxInputs[0].FrozenHeight = fz + frozenClaimSkew
	w.add(c1, 4, []*pb.Transaction{vkit.Coinbase("cb4", "M", w.award.Bytes()), t4, t6})
	// an award-only fork g <- d1 <- d2: the only kind of block Walk's redo leg can apply without
	// signatures (transactions flagged Autogen without ext inputs / outputs were accepted unverified
	// until fix "autogen / coinbase flags" and served as that kind before)
	d1 := w.add(0, 7, []*pb.Transaction{vkit.Coinbase("cb7", "M", w.award.Bytes())})
	w.add(d1, 8, []*pb.Transaction{vkit.Coinbase("cb8", "M", w.award.Bytes())})
	if deepWorld {
		// two more main-branch blocks (award only, hence applicable by Walk's redo leg): depth 4
		b3 := w.add(2, 5, []*pb.Transaction{vkit.Coinbase("cb5", "M", w.award.Bytes())})
		w.add(b3, 6, []*pb.Transaction{vkit.Coinbase("cb6", "M", w.award.Bytes())})
	}
	return w
}

// frozenClaimSkew: added to the frozen height t6's input claims for the output it spends (0: faithful)
var frozenClaimSkew int64

// skipProbe: the harnesses whose subject is not admission behaviour leave the final probe submission out
var skipProbe bool

// deepWorld: set by the harnesses that need a chain of depth 4 (finality windows of 2)
var deepWorld bool

// fresh: a new node that plays genesis..target in order.
func (w *world) fresh(name string, target int) *state.State {
	s := w.e.NewState(name)
	var path []int
	for i := target; i >= 0; i = w.parent[i] {
		path = append([]int{i}, path...)
	}
	for _, i := range path {
		err := s.Play(w.blocks[i].Blockid)
		if err != nil && !vrt.Symbolic() {
			println("replica play error:", err.Error())
		}
		vrt.Assert(err == nil, "replica-plays-chain-in-order")
	}
	return s
}

func (w *world) onPath(i, tip int) bool {
	for j := tip; j >= 0; j = w.parent[j] {
		if j == i {
			return true
		}
	}
	return false
}

// conservation: the sums the property C02 states.
func conservation(w *world, s *state.State, at int, when string) {
	o := vkit.Observe(s)
	// sum of unspent outputs = total supply = genesis + awards of applied blocks
	sum := big.NewInt(0)
	perAddr := map[string]*big.Int{}
	for _, a := range vkit.Addrs {
		perAddr[a] = big.NewInt(0)
	}
	for _, kv := range o.Utxo {
		item := new(big.Int)
		// value = protobuf of UtxoItem is not decoded here; balances are the independent view
		_ = item
		_ = kv
	}
	for _, a := range vkit.Addrs {
		sum.Add(sum, o.Balances[a])
	}
	applied := int64(0)
	for i := at; i > 0; i = w.parent[i] {
		applied++
	}
	want := new(big.Int).Add(big.NewInt(14), new(big.Int).Mul(w.award, big.NewInt(applied)))
	vrt.Assert(o.Total.Cmp(want) == 0, "total-supply-is-genesis-plus-awards-of-applied-blocks")
	vrt.Assert(sum.Cmp(o.Total) == 0, "sum-of-balances-equals-total-supply")
	_ = when
}

// walks: a sequence of K operations (play next / walk anywhere / restart); after
// each, the live state must equal a fresh replica walked to the same block.
func walks(K int, window string, data int) { walksFrom(K, window, data, false) }

// walksFrom: as walks; with anyStart the node begins at any block of the tree (reached by plain
// plays), so K operations cover histories K plays longer.
func walksFrom(K int, window string, data int, anyStart bool) {
	w := build(window, data)
	at := 0
	if anyStart {
		at = vrt.Choice("start", len(w.blocks))
	}
	s := w.fresh("live", at)
	maxApplied := w.height[at]
	wnd := int64(0)
	if window != "0" {
		wnd = int64(window[0] - '0')
	}
	for step := 0; step < K; step++ {
		op := vrt.Choice("op", 3)
		target := vrt.Choice("target", len(w.blocks))
		irrBefore := vkit.Observe(s).Irrev
		switch op {
		case 0: // walk to any stored block whose redo leg State.Walk can apply (see world.walkable)
			ok := true
			for j := target; j > 0 && !w.onPath(j, at); j = w.parent[j] {
				if !w.walkable[j] {
					ok = false
				}
			}
			if !ok {
				continue
			}
			err := s.Walk(w.blocks[target].Blockid, false)
			vrt.Quiesce()
			// C17: a walk may only be refused for crossing the irreversible height
			crosses := false
			for i := at; i > 0; i = w.parent[i] {
				onTarget := false
				for j := target; j >= 0; j = w.parent[j] {
					if j == i {
						onTarget = true
					}
				}
				if !onTarget && w.height[i] <= irrBefore {
					crosses = true
				}
			}
			if wnd == 1 { // with a window of 2 the tree (depth 2) has no irreversible block above genesis
				vrt.Cover("walk-refused-at-irreversible-height", err != nil)
			}
			vrt.Assert((err != nil) == crosses, "walk-refused-iff-it-would-undo-an-irreversible-block")
			if err != nil {
				return // the state after a refused walk is C05's subject
			}
			at = target
		case 1: // play the next block of the current branch, if it is a child
			if w.parent[target] != at {
				continue
			}
			asMiner := false
			if anyStart && vrt.Choice("seen-before", 2) == 1 {
				asMiner = vrt.Choice("as-miner", 2) == 1
				// the node has seen the block's transactions before: they sit in its pool when the block arrives
				for _, tx := range w.blocks[target].Transactions {
					if !tx.Coinbase && !tx.Autogen { // generated transactions never travel through the pool
						c := *tx // as received from a client: not yet stamped with a block id
						c.Blockid = nil
						derr := s.DoTx(&c)
						if derr != nil && !vrt.Symbolic() {
							println("pool refuses", string(tx.Txid), derr.Error())
						}
						vrt.Assert(derr == nil, "pool-admits-the-blocks-transactions")
					}
				}
			}
			var err error
			if asMiner {
				// the node produced the block itself from its pool: the miner's way of applying it
				err = s.PlayForMiner(w.blocks[target].Blockid)
			} else {
				err = s.Play(w.blocks[target].Blockid)
			}
			vrt.Assert(err == nil, "play-of-child-block-succeeds")
			at = target
		case 2: // restart
			s = w.e.NewState("live")
		}
		if w.height[at] > maxApplied {
			maxApplied = w.height[at]
		}
		vrt.Cover("on-fork", at >= 3 && at <= 6)
		vrt.Cover("deep", at == 2)
		live := vkit.Observe(s)
		replica := vkit.Observe(w.fresh("replica"+string([]byte{byte('0' + step)}), at))
		// the irreversible height depends on history by design (C17), everything else on the block alone
		replica.Irrev = live.Irrev
		vkit.Same(live, replica, vrt.Assert)
		conservation(w, s, at, "step")
		// C17: irreversible = max(0, max applied height - w), monotone
		if wnd > 0 {
			want := maxApplied - wnd
			if want < 0 {
				want = 0
			}
			vrt.Assert(live.Irrev == want, "irreversible-is-max-applied-height-minus-window")
		}
		vrt.Assert(live.Irrev >= irrBefore, "irreversible-height-never-decreases")
		vrt.Assert(live.Window == wnd, "window-survives")
	}
	if !anyStart || skipProbe {
		return
	}
	// behaviour, not only answers: the node that got here by plays, walks and restarts admits or
	// refuses a pool submission exactly like a fresh node at the same block, and ends up equal
	// the amount the probe cites for the output it spends (and passes on) is arbitrary: only the real one may be admitted
	var ptx *pb.Transaction
	cited := big.NewInt(vrt.Int("probe-amount", 1, 9))
	var real *big.Int
	switch vrt.Choice("probe", 3) {
	case 0:
		ptx, real = vkit.Tx("probe", []*protos.TxInput{vkit.In([]byte("cb1"), 0, "M", cited)}, []*protos.TxOutput{vkit.Out("C", cited, 0)}), w.award
	case 1:
		ptx, real = vkit.Tx("probe", []*protos.TxInput{vkit.In([]byte("t1"), 1, "A", cited)}, []*protos.TxOutput{vkit.Out("C", cited, 0)}), w.restA
	case 2:
		ptx, real = vkit.Tx("probe", []*protos.TxInput{vkit.In(w.e.RootTx.Txid, 1, "B", cited)}, []*protos.TxOutput{vkit.Out("C", cited, 0)}), big.NewInt(5)
	}
	rep := w.fresh("probe-replica", at)
	e1, e2 := s.DoTx(ptx), rep.DoTx(ptx)
	vrt.Cover("probe-admitted", e2 == nil)
	vrt.Cover("probe-refused", e2 != nil)
	vrt.Assert((e1 == nil) == (e2 == nil), "walked-node-admits-what-a-fresh-node-admits")
	vrt.Assert(e1 != nil || cited.Cmp(real) == 0, "admitted-only-if-the-cited-amount-is-the-real-amount")
	conservation(w, s, at, "after-probe")
	lo, ro := vkit.Observe(s), vkit.Observe(rep)
	ro.Irrev = lo.Irrev
	vkit.Same(lo, ro, func(c bool, label string) { vrt.Assert(c, "after-submission-"+label) })
}

func VerifC01Quick()    { walks(2, "0", 1) }
func VerifC01Thorough() { walks(2, "0", 2) }
func VerifC01Deep()     { walks(3, "0", 0) }
func VerifC01AnyStart() { walksFrom(2, "0", 0, true) }

// VerifC01Select: as VerifC01AnyStart, the outputs SelectUtxos hands out for each address's whole
// balance (served from the node's output cache first) being one more observable.
func VerifC01Select() { vkit.ObserveSelect, skipProbe = true, true; walksFrom(2, "0", 0, true) }

// VerifC17AnyStart: window 2 on the deep world, the node starts at any block, then 2 operations
func VerifC17AnyStart() { deepWorld, skipProbe = true, true; walksFrom(2, "2", 0, true) }
func VerifC17Walks()    { walks(3, "1", 0) }
func VerifC17Walks2()   { walks(3, "2", 0) }

// VerifC02Tx: one arbitrary transfer transaction submitted to the pool of a
// node at genesis (unspent: root/0 -> A 9, root/1 -> B 5). If it is admitted,
// every input is an existing unspent output cited with its owner and exact
// amount bytes, inputs are pairwise distinct and sum(inputs) = sum(outputs).
func verifC02Tx(maxIn, maxOut int) {
	e := vkit.NewEnv("c02", vkit.Genesis("0", "9", "5"), nil)
	s := e.NewState("live")
	vrt.Assert(s.Play(e.Root.Blockid) == nil, "genesis-plays")
	nIn := vrt.Choice("inputs", maxIn+1)
	nOut := vrt.Choice("outputs", maxOut+1)
	type cite struct {
		off   int32
		owner string
		amt   []byte
	}
	var cites []cite
	var ins []*protos.TxInput
	for i := 0; i < nIn; i++ {
		c := cite{off: int32(vrt.Choice("offset", 3)), owner: []string{"A", "B"}[vrt.Choice("owner", 2)], amt: vrt.Bytes("in"+string([]byte{byte('0' + i)}), vrt.Choice("inlen", 3))}
		cites = append(cites, c)
		ins = append(ins, &protos.TxInput{RefTxid: e.RootTx.Txid, RefOffset: c.off, FromAddr: []byte(c.owner), Amount: c.amt})
	}
	var outs []*protos.TxOutput
	sumOut := big.NewInt(0)
	for i := 0; i < nOut; i++ {
		a := vrt.Bytes("out"+string([]byte{byte('0' + i)}), vrt.Choice("outlen", 3))
		outs = append(outs, &protos.TxOutput{ToAddr: []byte("C"), Amount: a})
		sumOut.Add(sumOut, new(big.Int).SetBytes(a))
	}
	tx := vkit.Tx("tx", ins, outs)
	err := s.DoTx(tx)
	vrt.Cover("admitted", err == nil && nIn > 0)
	vrt.Cover("refused", err != nil)
	if err != nil {
		return
	}
	sumIn := big.NewInt(0)
	for i, c := range cites {
		okA := c.off == 0 && c.owner == "A" && len(c.amt) == 1 && c.amt[0] == 9
		okB := c.off == 1 && c.owner == "B" && len(c.amt) == 1 && c.amt[0] == 5
		vrt.Assert(okA || okB, "admitted-input-is-an-unspent-output-with-its-owner-and-exact-amount")
		for j := 0; j < i; j++ {
			vrt.Assert(!(cites[j].off == c.off && cites[j].owner == c.owner), "admitted-inputs-are-pairwise-distinct")
		}
		sumIn.Add(sumIn, new(big.Int).SetBytes(c.amt))
	}
	vrt.Assert(sumIn.Cmp(sumOut) == 0, "admitted-transaction-balances")
	// afterwards the pool holds it and the balances moved accordingly
	o := vkit.Observe(s)
	tot := new(big.Int)
	for _, a := range vkit.Addrs {
		tot.Add(tot, o.Balances[a])
	}
	vrt.Assert(tot.Cmp(big.NewInt(14)) == 0 && o.Total.Cmp(big.NewInt(14)) == 0, "supply-unchanged-by-admitted-transaction")
}

func VerifC02TxQuick()    { verifC02Tx(2, 2) }
func VerifC02TxThorough() { verifC02Tx(3, 3) }

// ---------------------------------------------------------------- C03

type c03tx struct {
	tx    *pb.Transaction
	utxo  []string // consumed outputs "txid/offset"
	keyIn []string // key versions read: "k@version"
	wkey  string   // key written ("" none)
	deps  []int    // family members whose outputs/versions it consumes
}

// verifC03: K operations over a family of conflicting / dependent transactions:
//
//	p1: root/0 -> C x, A 9-x; writes k1 (never-written)     p2: root/0 -> B 9; reads k1 (never-written)
//	p3: root/1 -> C 5; writes k1 (never-written)             p4: p1/0 -> A x            (depends on p1)
//	q1, q2: each reads k1 at p3's version and overwrites it  (depend on p3, conflict with each other)
//	p5: root/1 + p1/0 -> A 5+x   (confirmed input listed before the pending one)
//
// Operations: DoTx(any member), or a peer block (coinbase + one of p1,p2,p3) confirmed and played.
// Oracle: unspent outputs and key versions maintained from the successful operations only.
func verifC03(K int) {
	e := vkit.NewEnv("c03", vkit.Genesis("0", "9", "5"), nil)
	s := e.NewState("live")
	vrt.Assert(s.Play(e.Root.Blockid) == nil, "genesis-plays")
	root := e.RootTx.Txid
	nine, five := big.NewInt(9), big.NewInt(5)
	x := big.NewInt(vrt.Int("x", 1, 9))
	val := vrt.Bytes("val", 1)
	vrt.Assume(val[0] != 0)
	p1 := vkit.WithKey(vkit.Tx("p1", []*protos.TxInput{vkit.In(root, 0, "A", nine)}, []*protos.TxOutput{vkit.Out("C", x, 0), vkit.Out("A", new(big.Int).Sub(nine, x), 0)}), "bk", "k1", nil, 0, val)
	p2 := vkit.WithKey(vkit.Tx("p2", []*protos.TxInput{vkit.In(root, 0, "A", nine)}, []*protos.TxOutput{vkit.Out("B", nine, 0)}), "bk", "k1", nil, 0, nil)
	p3 := vkit.WithKey(vkit.Tx("p3", []*protos.TxInput{vkit.In(root, 1, "B", five)}, []*protos.TxOutput{vkit.Out("C", five, 0)}), "bk", "k1", nil, 0, []byte("p3"))
	p4 := vkit.Tx("p4", []*protos.TxInput{vkit.In([]byte("p1"), 0, "C", x)}, []*protos.TxOutput{vkit.Out("A", x, 0)})
	q1 := vkit.WithKey(vkit.Tx("q1", nil, nil), "bk", "k1", []byte("p3"), 0, []byte("q1"))
	q2 := vkit.WithKey(vkit.Tx("q2", nil, nil), "bk", "k1", []byte("p3"), 0, []byte("q2"))
	// p5: inputs [confirmed root/1, pending p1/0] in that order (depends on p1, conflicts with p3 and p4)
	p5 := vkit.Tx("p5", []*protos.TxInput{vkit.In(root, 1, "B", five), vkit.In([]byte("p1"), 0, "C", x)}, []*protos.TxOutput{vkit.Out("A", new(big.Int).Add(five, x), 0)})
	// qd deletes k1 at p3's version (a delete marker is a write like any other), qr re-creates it after qd
	qd := vkit.WithKey(vkit.Tx("qd", nil, nil), "bk", "k1", []byte("p3"), 0, []byte{0})
	qr := vkit.WithKey(vkit.Tx("qr", nil, nil), "bk", "k1", []byte("qd"), 0, []byte("qr"))
	rootA, rootB := string(root)+"/0", string(root)+"/1"
	fam := []c03tx{
		{p1, []string{rootA}, []string{"k1@"}, "k1", nil},
		{p2, []string{rootA}, []string{"k1@"}, "", nil},
		{p3, []string{rootB}, []string{"k1@"}, "k1", nil},
		{p4, []string{"p1/0"}, nil, "", []int{0}},
		{q1, nil, []string{"k1@p3"}, "k1", []int{2}},
		{q2, nil, []string{"k1@p3"}, "k1", []int{2}},
		{p5, []string{rootB, "p1/0"}, nil, "", []int{0}},
		{qd, nil, []string{"k1@p3"}, "k1", []int{2}},
		{qr, nil, []string{"k1@qd"}, "k1", []int{7}},
	}
	// oracle state
	unspent := map[string]bool{rootA: true, rootB: true}
	keyVer := "" // current version of k1: "" never written, else the writer's id
	inPool := map[int]bool{}
	confirmed := map[int]bool{}
	applied := func(i int) { // effects of member i on the oracle
		for _, u := range fam[i].utxo {
			delete(unspent, u)
		}
		for off := range fam[i].tx.TxOutputs {
			unspent[string(fam[i].tx.Txid)+"/"+string([]byte{byte('0' + off)})] = true
		}
		if fam[i].wkey != "" {
			keyVer = string(fam[i].tx.Txid)
		}
	}
	current := func(i int) bool {
		for _, u := range fam[i].utxo {
			if !unspent[u] {
				return false
			}
		}
		for _, k := range fam[i].keyIn {
			if k != "k1@"+keyVer {
				return false
			}
		}
		return true
	}
	tip := e.Root
	for step := 0; step < K; step++ {
		op := vrt.Choice("op", 2)
		if op == 0 {
			i := vrt.Choice("member", len(fam))
			err := s.DoTx(fam[i].tx)
			cur := current(i) && !inPool[i] && !confirmed[i]
			vrt.Cover("admitted", err == nil)
			vrt.Cover("refused", err != nil)
			vrt.Known("stale-batch-cache-after-block", len(confirmed) > 0 && fam[i].wkey == "k1" && len(fam[i].keyIn) > 0)
			vrt.Assert(err != nil || cur, "admitted-only-if-every-input-is-current")
			vrt.Assert(err == nil || !cur, "current-transaction-is-not-refused")
			if err == nil {
				inPool[i] = true
				applied(i)
			}
			continue
		}
		// a block from a peer carrying coinbase + one of p1, p2, p3, p4
		i := vrt.Choice("block-member", 4)
		if confirmed[i] {
			continue
		}
		b := vkit.Block(tip.Blockid, int32(10+step), []*pb.Transaction{vkit.Coinbase("cb"+string([]byte{byte('0' + step)}), "M", []byte{7}), fam[i].tx})
		if st := e.L.ConfirmBlock(b, false); !st.Succ {
			vrt.Assert(false, "ledger-confirms-peer-block")
			return
		}
		// expected: pool transactions that conflict with the block's transaction (and what depends on them) leave the pool
		conflicts := func(a, c int) bool {
			for _, u := range fam[a].utxo {
				for _, v := range fam[c].utxo {
					if u == v {
						return true
					}
				}
			}
			// a = pending member, c = the block's member, both citing the same version of k1:
			// if the block's member overwrites it, the pending one is stale afterwards;
			// if the block's member only reads it and was never seen by this node, a pending writer
			// of that version has to be undone for the block to apply (a reader this node admitted
			// itself was admitted before the writer, which is a valid order)
			if len(fam[a].keyIn) > 0 && len(fam[c].keyIn) > 0 && fam[a].keyIn[0] == fam[c].keyIn[0] {
				if fam[c].wkey != "" && (fam[a].wkey != "" || !inPool[c]) {
					return true
				}
				if fam[a].wkey != "" && !inPool[c] {
					return true
				}
			}
			return false
		}
		// rebuild the oracle: confirmed effects first, then surviving pool members in admission order is not tracked;
		// so recompute from scratch: drop conflicting pool members and their dependants
		drop := map[int]bool{}
		// a pending transaction that only READ the version the block's member overwrites, while that
		// member was pending here too: the property does not say whether it stays pending (it was
		// current when admitted, before the writer); nothing is asserted about it
		dontCare := map[int]bool{}
		for j := range fam {
			if inPool[j] && j != i && conflicts(j, i) {
				drop[j] = true
			}
			if inPool[j] && j != i && fam[j].wkey == "" && fam[i].wkey != "" && inPool[i] && len(fam[j].keyIn) > 0 && fam[j].keyIn[0] == fam[i].keyIn[0] {
				dontCare[j] = true
			}
		}
		for changed := true; changed; {
			changed = false
			for j := range fam {
				if inPool[j] && !drop[j] {
					for _, d := range fam[j].deps {
						if drop[d] {
							drop[j] = true
							changed = true
						}
					}
				}
			}
		}
		// is the block's transaction valid on the confirmed state (pool aside)?
		validOnConfirmed := true
		for _, u := range fam[i].utxo {
			spentByConfirmed := false
			for j := range fam {
				if confirmed[j] {
					for _, v := range fam[j].utxo {
						if v == u {
							spentByConfirmed = true
						}
					}
				}
			}
			if spentByConfirmed {
				validOnConfirmed = false
			}
		}
		for j := range fam {
			if confirmed[j] && fam[j].wkey == "k1" && len(fam[i].keyIn) > 0 {
				validOnConfirmed = false // k1 is no longer at the never-written version
			}
		}
		// an output the block's member spends must have been created on the chain, not only in this node's pool
		spendsPendingOnly := false
		for _, d := range fam[i].deps {
			if !confirmed[d] {
				validOnConfirmed = false
				if inPool[d] {
					spendsPendingOnly = true
				}
			}
		}
		unseenReaderVsPendingWriter := false
		for j := range fam {
			if inPool[j] && j != i && fam[j].wkey != "" && fam[i].wkey == "" && !inPool[i] && len(fam[i].keyIn) > 0 && fam[j].keyIn[0] == fam[i].keyIn[0] {
				unseenReaderVsPendingWriter = true
			}
		}
		err := s.Play(b.Blockid)
		vrt.Quiesce()
		vrt.Known("pending-writer-blocks-unseen-reader", unseenReaderVsPendingWriter)
		// the block's member is a pure reader this node holds pending, and a writer of the version it
		// cites has been confirmed meanwhile (the writer was pending here too when its block arrived)
		pendingReaderOfSupersededVersion := false
		for j := range fam {
			if confirmed[j] && fam[j].wkey != "" && inPool[i] && fam[i].wkey == "" && len(fam[i].keyIn) > 0 && fam[j].keyIn[0] == fam[i].keyIn[0] {
				pendingReaderOfSupersededVersion = true
			}
		}
		vrt.Known("pending-reader-survives-confirmed-writer", pendingReaderOfSupersededVersion)
		if !vrt.Symbolic() {
			println("C03 play member", i, "validOnConfirmed", validOnConfirmed, "err", err != nil)
			if err != nil {
				println("   error:", err.Error())
			}
		}
		vrt.Cover("block-played", err == nil)
		vrt.Known("block-spends-pending-only-output", spendsPendingOnly)
		vrt.Assert((err == nil) == validOnConfirmed, "block-admitted-iff-its-transaction-is-current-on-the-confirmed-state")
		if err != nil || !validOnConfirmed {
			return // the state after a failed play is C05's subject
		}
		tip = b
		// new oracle state: recompute from genesis: confirmed members, then surviving pool members
		wasPool := inPool[i]
		confirmed[i] = true
		delete(inPool, i)
		for j := range drop {
			delete(inPool, j)
		}
		unspent = map[string]bool{rootA: true, rootB: true}
		keyVer = ""
		for pass := 0; pass < 2; pass++ {
			for j := range fam {
				if (pass == 0 && confirmed[j]) || (pass == 1 && inPool[j]) {
					applied(j)
				}
			}
		}
		_ = wasPool
		// the pool holds exactly the surviving members
		pool, perr := s.GetUnconfirmedTx(false)
		vrt.Assert(perr == nil, "pool-readable")
		got := map[string]bool{}
		for _, t := range pool {
			got[string(t.Txid)] = true
		}
		for j := range fam {
			if dontCare[j] {
				inPool[j] = got[string(fam[j].tx.Txid)]
				continue
			}
			if !vrt.Symbolic() && got[string(fam[j].tx.Txid)] != inPool[j] {
				println("C03 pool mismatch member", j, "in real pool", got[string(fam[j].tx.Txid)], "oracle", inPool[j])
			}
			vrt.Assert(got[string(fam[j].tx.Txid)] == inPool[j], "pool-holds-exactly-the-non-conflicting-pending-transactions")
		}
	}
	// no two admitted transactions consume the same output or supersede the same key version
	var adm []int
	for j := range fam {
		if inPool[j] || confirmed[j] {
			adm = append(adm, j)
		}
	}
	for a := 0; a < len(adm); a++ {
		for c := a + 1; c < len(adm); c++ {
			for _, u := range fam[adm[a]].utxo {
				for _, v := range fam[adm[c]].utxo {
					vrt.Assert(u != v, "no-output-spent-twice")
				}
			}
			if fam[adm[a]].wkey != "" && fam[adm[c]].wkey != "" {
				vrt.Assert(fam[adm[a]].keyIn[0] != fam[adm[c]].keyIn[0], "no-key-version-superseded-twice")
			}
		}
	}
}

// VerifC03ReaderUndone: the pool holds a reader of a key version (spending output A) and, admitted after
// it, the writer that supersedes that version (spending output B).  A peer's block carries the writer and
// a transaction spending output A: the reader has to go, the writer is confirmed.  Afterwards the node
// must equal one that played the chain.
func VerifC03ReaderUndone() {
	e := vkit.NewEnv("c03r", vkit.Genesis("0", "9", "5"), nil)
	s := e.NewState("live")
	vrt.Assert(s.Play(e.Root.Blockid) == nil, "genesis-plays")
	root := e.RootTx.Txid
	nine, five := big.NewInt(9), big.NewInt(5)
	reader := vkit.WithKey(vkit.Tx("p2", []*protos.TxInput{vkit.In(root, 0, "A", nine)}, []*protos.TxOutput{vkit.Out("B", nine, 0)}), "bk", "k1", nil, 0, nil)
	writer := vkit.WithKey(vkit.Tx("p3", []*protos.TxInput{vkit.In(root, 1, "B", five)}, []*protos.TxOutput{vkit.Out("C", five, 0)}), "bk", "k1", nil, 0, []byte("p3"))
	rival := vkit.Tx("px", []*protos.TxInput{vkit.In(root, 0, "A", nine)}, []*protos.TxOutput{vkit.Out("C", nine, 0)})
	vrt.Assert(s.DoTx(reader) == nil, "reader-admitted")
	vrt.Assert(s.DoTx(writer) == nil, "writer-admitted")
	order := vrt.Choice("rival-first", 2)
	txs := []*pb.Transaction{vkit.Coinbase("cb1", "M", []byte{7})}
	w := &pb.Transaction{Txid: writer.Txid, Version: writer.Version, TxInputs: writer.TxInputs, TxOutputs: writer.TxOutputs, TxInputsExt: writer.TxInputsExt, TxOutputsExt: writer.TxOutputsExt}
	if order == 1 {
		txs = append(txs, rival, w)
	} else {
		txs = append(txs, w, rival)
	}
	b := vkit.Block(e.Root.Blockid, 1, txs)
	vrt.Assert(e.L.ConfirmBlock(b, false).Succ, "ledger-confirms-peer-block")
	err := s.Play(b.Blockid)
	vrt.Quiesce()
	vrt.Assert(err == nil, "valid-block-plays")
	if err != nil {
		return
	}
	rep := e.NewState("replica")
	vrt.Assert(rep.Play(e.Root.Blockid) == nil && rep.Play(b.Blockid) == nil, "replica-plays-chain-in-order")
	vkit.Same(vkit.Observe(s), vkit.Observe(rep), func(c bool, label string) { vrt.Assert(c, "node-equals-replica-of-its-chain-"+label) })
}

func VerifC03Quick()    { verifC03(3) }
func VerifC03Thorough() { verifC03(4) }

// ---------------------------------------------------------------- C18

type c18rec struct {
	val []byte
	ver string
}

// verifC18: one key with a symbolic history over N main-chain blocks (per
// block: untouched / put / delete / two writes / read-only), optionally
// pending writes on top; every snapshot must answer what the live reader
// answered when that block was the tip.
func verifC18(N int) { verifC18With(N, false) }

// verifC18With, reorg: the history starts on a block x1 that writes the key and is later abandoned
// (the main chain grows from genesis beside it and takes over with its second block); a main-chain
// block may include x1's writer again.  Snapshots are taken at the blocks of the final main chain.
func verifC18With(N int, reorg bool) {
	e := vkit.NewEnv("c18", vkit.Genesis("0", "9", "5"), nil)
	s := e.NewState("live")
	vrt.Assert(s.Play(e.Root.Blockid) == nil, "genesis-plays")
	tip := e.Root
	var curTx []byte // current version of k1 (nil = never written)
	var curOff int32
	var blocks []*pb.InternalBlock
	var live []c18rec
	readLive := func() c18rec {
		v, err := s.CreateXMReader().Get("bk", []byte("k1"))
		vrt.Assert(err == nil && v != nil && v.PureData != nil, "live-read-succeeds")
		return c18rec{append([]byte{}, v.PureData.Value...), string(v.RefTxid) + "/" + string([]byte{byte('0' + v.RefOffset)})}
	}
	// a writer may put k1 at output index 0 or, behind an unrelated key, at index 1
	mk := func(id string, value []byte, write bool) *pb.Transaction {
		t := vkit.Tx(id, nil, nil)
		if write {
			pos := int32(0)
			if len(value) == 1 && value[0] != 0 || string(value) == "pending" {
				pos = int32(vrt.Choice("pos", 2))
			}
			if pos == 1 {
				vkit.WithKey(t, "bk", "aux-"+id, nil, 0, []byte("aux"))
			}
			vkit.WithKey(t, "bk", "k1", curTx, curOff, value)
			curTx, curOff = []byte(id), pos
		} else {
			vkit.WithKey(t, "bk", "k1", curTx, curOff, nil)
		}
		return t
	}
	blocks = append(blocks, tip)
	live = append(live, readLive())
	var wx *pb.Transaction
	if reorg {
		wx = vkit.Tx("wx", nil, nil)
		vkit.WithKey(wx, "bk", "k1", nil, 0, []byte("abandoned"))
		x1 := vkit.Block(tip.Blockid, 90, []*pb.Transaction{vkit.Coinbase("cbx", "M", []byte{7}), wx})
		vrt.Assert(e.L.ConfirmBlock(x1, false).Succ, "block-confirmed-by-ledger")
		vrt.Assert(s.Play(x1.Blockid) == nil, "block-plays")
		// two award-only blocks beside it take the main chain over (Walk verifies what it
		// applies; the harness's key writers are unsigned, so they come after the switch)
		for j := 1; j <= 2; j++ {
			tag := string([]byte{byte('0' + j)})
			b := vkit.Block(tip.Blockid, int32(90+j), []*pb.Transaction{vkit.Coinbase("cby"+tag, "M", []byte{7})})
			vrt.Assert(e.L.ConfirmBlock(b, false).Succ, "block-confirmed-by-ledger")
			vrt.Assert(s.Walk(b.Blockid, false) == nil, "block-walked-to")
			tip = b
			blocks = append(blocks, b)
			live = append(live, readLive())
		}
	}
	for i := 1; i <= N; i++ {
		tag := string([]byte{byte('0' + i)})
		txs := []*pb.Transaction{vkit.Coinbase("cb"+tag, "M", []byte{7})}
		nAct := 5
		if reorg && wx != nil && curTx == nil {
			nAct = 6
		}
		switch vrt.Choice("action", nAct) {
		case 5: // the abandoned block's writer, included again on the main chain
			txs = append(txs, &pb.Transaction{Txid: wx.Txid, Version: wx.Version, TxInputsExt: wx.TxInputsExt, TxOutputsExt: wx.TxOutputsExt})
			curTx, curOff = wx.Txid, 0
			wx = nil
			vrt.Cover("abandoned-writer-included-again", true)
		case 0: // untouched
		case 1: // put
			v := vrt.Bytes("v"+tag, 1)
			vrt.Assume(v[0] != 0)
			txs = append(txs, mk("w"+tag, v, true))
		case 2: // delete
			txs = append(txs, mk("d"+tag, []byte{0}, true))
		case 3: // two writes in one block
			v := vrt.Bytes("v"+tag, 1)
			vrt.Assume(v[0] != 0)
			txs = append(txs, mk("a"+tag, []byte("first"), true), mk("b"+tag, v, true))
		case 4: // read-only
			txs = append(txs, mk("r"+tag, nil, false))
		}
		b := vkit.Block(tip.Blockid, int32(i), txs)
		vrt.Assert(e.L.ConfirmBlock(b, false).Succ, "block-confirmed-by-ledger")
		vrt.Assert(s.Play(b.Blockid) == nil, "block-plays")
		tip = b
		blocks = append(blocks, b)
		live = append(live, readLive())
	}
	// the abandoned block's writer comes back as a pending transaction (the ledger still holds its
	// record from the abandoned block)
	if reorg && wx != nil && curTx == nil && vrt.Choice("abandoned-writer-resubmitted", 2) == 1 {
		c := &pb.Transaction{Txid: wx.Txid, Version: wx.Version, TxInputsExt: wx.TxInputsExt, TxOutputsExt: wx.TxOutputsExt}
		vrt.Assert(s.DoTx(c) == nil, "pending-write-admitted")
		curTx, curOff = wx.Txid, 0
		vrt.Cover("abandoned-writer-pending-again", true)
	}
	// pending writes on top of the tip
	np := vrt.Choice("pending", 3)
	for p := 0; p < np; p++ {
		t := mk("p"+string([]byte{byte('0' + p)}), []byte("pending"), true)
		vrt.Assert(s.DoTx(t) == nil, "pending-write-admitted")
	}
	for i, b := range blocks {
		snap, err := s.CreateSnapshot(b.Blockid)
		vrt.Assert(err == nil, "snapshot-created")
		v, err := snap.Get("bk", []byte("k1"))
		vrt.Assert(err == nil && v != nil && v.PureData != nil, "snapshot-read-succeeds")
		if err != nil || v == nil || v.PureData == nil {
			continue
		}
		vrt.Assert(string(v.PureData.Value) == string(live[i].val), "snapshot-value-is-value-when-block-was-tip")
		vrt.Assert(string(v.RefTxid)+"/"+string([]byte{byte('0' + v.RefOffset)}) == live[i].ver, "snapshot-version-is-version-when-block-was-tip")
		rd, err := s.CreateXMSnapshotReader(b.Blockid)
		vrt.Assert(err == nil, "snapshot-reader-created")
		got, err := rd.Get("bk", []byte("k1"))
		vrt.Assert(err == nil && string(got) == string(live[i].val), "snapshot-reader-value-is-value-when-block-was-tip")
	}
	// the tip snapshot never exposes pending writes
	tr, err := s.GetTipXMSnapshotReader()
	vrt.Assert(err == nil, "tip-snapshot-reader-created")
	got, err := tr.Get("bk", []byte("k1"))
	vrt.Cover("pending-on-top", np > 0)
	vrt.Assert(err == nil && string(got) == string(live[len(live)-1].val), "tip-snapshot-hides-pending-writes")
}

func VerifC18Quick()    { verifC18(3) }
func VerifC18Thorough() { verifC18(4) }
func VerifC18Reorg()    { verifC18With(2, true) }

// ---------------------------------------------------------------- C05 / C06

// scene: genesis and b1 (cb + t1: A pays x to B, writes k1) confirmed and played; candidates for further operations.
type scene struct {
	e        *vkit.Env
	s        *state.State
	b1       *pb.InternalBlock
	blockIDs [][]byte
	txIDs    [][]byte
	x        *big.Int
	// the failed operation was PlayForMiner (known-finding class of its own: see known_findings.json)
	failedMinerPlay bool
}

func newScene(name string, f *memdbFaults) *scene {
	sc := &scene{}
	sc.e = vkit.NewEnv(name, vkit.Genesis("0", "9", "5"), f)
	sc.s = sc.e.NewState("live")
	vrt.Assert(sc.s.Play(sc.e.Root.Blockid) == nil, "genesis-plays")
	sc.x = big.NewInt(vrt.Int("x", 1, 9))
	t1 := vkit.Tx("t1", []*protos.TxInput{vkit.In(sc.e.RootTx.Txid, 0, "A", big.NewInt(9))}, []*protos.TxOutput{vkit.Out("B", sc.x, 0), vkit.Out("A", new(big.Int).Sub(big.NewInt(9), sc.x), 0)})
	vkit.WithKey(t1, "bk", "k1", nil, 0, []byte("one"))
	sc.b1 = vkit.Block(sc.e.Root.Blockid, 1, []*pb.Transaction{vkit.Coinbase("cb1", "M", []byte{7}), t1})
	vrt.Assert(sc.e.L.ConfirmBlock(sc.b1, false).Succ, "b1-confirmed")
	vrt.Assert(sc.s.Play(sc.b1.Blockid) == nil, "b1-plays")
	sc.blockIDs = [][]byte{sc.e.Root.Blockid, sc.b1.Blockid}
	sc.txIDs = [][]byte{sc.e.RootTx.Txid, []byte("cb1"), []byte("t1")}
	return sc
}

// goodTx2 spends B's x (from t1) to C and overwrites k1.
func (sc *scene) goodTx2() *pb.Transaction {
	t := vkit.Tx("t2", []*protos.TxInput{vkit.In([]byte("t1"), 0, "B", sc.x)}, []*protos.TxOutput{vkit.Out("C", sc.x, 0)})
	return vkit.WithKey(t, "bk", "k1", []byte("t1"), 0, []byte("two"))
}

// badTx cites an output that does not exist.
func (sc *scene) badTx() *pb.Transaction {
	return vkit.Tx("bad", []*protos.TxInput{vkit.In([]byte("nope"), 0, "B", big.NewInt(3))}, []*protos.TxOutput{vkit.Out("C", big.NewInt(3), 0)})
}

func (sc *scene) observe() (*vkit.Obs, []string) {
	return vkit.Observe(sc.s), vkit.ObserveLedger(sc.e.L, sc.blockIDs, sc.txIDs)
}

// liveEqualsReopened: fresh instances on the same storage answer like the running ones.
func (sc *scene) liveEqualsReopened(tag string, afterFailedPlay bool) {
	so, lo := sc.observe()
	s2 := sc.e.NewState("live")
	l2 := sc.e.Reopen()
	vkit.Same(so, vkit.Observe(s2), func(c bool, label string) {
		vrt.Known("failed-block-play-leaves-memory-mutated", afterFailedPlay)
		vrt.Known("failed-miner-block-play-leaves-memory-mutated", sc.failedMinerPlay)
		vrt.Assert(c, "reopened-state-"+label)
	})
	vkit.SameStrings(lo, vkit.ObserveLedger(l2, sc.blockIDs, sc.txIDs), vrt.Assert, "reopened-ledger-answers-like-running-ledger")
	_ = tag
}

// verifC05: one operation that fails (kind chosen structurally, write-fault position symbolic where
// applicable) on a reached state, then a valid follow-up operation.
func verifC05() {
	f := newFaults()
	sc := newScene("c05", f)
	before, _ := sc.observe()
	coreL := func() []string { return vkit.ObserveLedger(sc.e.L, sc.blockIDs[:2], sc.txIDs[:3]) }
	lbefore := coreL()
	kind := vrt.Choice("failure", 9)
	var b2 *pb.InternalBlock
	stateMustBeUnchanged, ledgerMustBeUnchanged := true, true
	switch kind {
	case 0: // block with unknown parent
		b := vkit.Block([]byte("unknown-parent"), 9, []*pb.Transaction{vkit.Coinbase("cbx", "M", []byte{7})})
		sc.blockIDs = append(sc.blockIDs, b.Blockid)
		st := sc.e.L.ConfirmBlock(b, false)
		vrt.Assert(!st.Succ, "unknown-parent-refused")
	case 1: // block with two coinbases
		b := vkit.Block(sc.b1.Blockid, 9, []*pb.Transaction{vkit.Coinbase("cbx", "M", []byte{7}), vkit.Coinbase("cby", "M", []byte{7})})
		sc.blockIDs = append(sc.blockIDs, b.Blockid)
		sc.txIDs = append(sc.txIDs, []byte("cbx"), []byte("cby"))
		st := sc.e.L.ConfirmBlock(b, false)
		vrt.Assert(!st.Succ, "two-coinbases-refused")
		// a child of the refused block must be refused as well
		c := vkit.Block(b.Blockid, 10, []*pb.Transaction{vkit.Coinbase("cbz", "M", []byte{7})})
		sc.blockIDs = append(sc.blockIDs, c.Blockid)
		st2 := sc.e.L.ConfirmBlock(c, false)
		vrt.Known("header-cached-before-commit", true)
		vrt.Assert(!st2.Succ, "child-of-refused-block-refused")
	case 2: // storage write error while confirming a valid block
		b := vkit.Block(sc.b1.Blockid, 9, []*pb.Transaction{vkit.Coinbase("cbx", "M", []byte{7}), sc.goodTx2()})
		sc.blockIDs = append(sc.blockIDs, b.Blockid)
		sc.txIDs = append(sc.txIDs, []byte("cbx"), []byte("t2"))
		f.FailAt = f.Writes + vrt.Choice("write", 2)
		st := sc.e.L.ConfirmBlock(b, false)
		failed := f.Writes > f.FailAt
		f.FailAt = -1
		vrt.Cover("confirm-write-failed", failed && !st.Succ)
		if st.Succ {
			ledgerMustBeUnchanged = false
		}
	case 3: // play of a confirmed block whose second user transaction has a missing input
		b2 = vkit.Block(sc.b1.Blockid, 9, []*pb.Transaction{vkit.Coinbase("cbx", "M", []byte{7}), sc.goodTx2(), sc.badTx()})
		vrt.Assert(sc.e.L.ConfirmBlock(b2, false).Succ, "ledger-stores-block")
		ledgerMustBeUnchanged = false
		sc.blockIDs = append(sc.blockIDs, b2.Blockid)
		lbefore = coreL()
		err := sc.s.Play(b2.Blockid)
		vrt.Assert(err != nil, "block-with-missing-input-refused")
		ledgerMustBeUnchanged = true
		b2 = nil
	case 4: // storage write error while playing a valid block
		b := vkit.Block(sc.b1.Blockid, 9, []*pb.Transaction{vkit.Coinbase("cbx", "M", []byte{7}), sc.goodTx2()})
		vrt.Assert(sc.e.L.ConfirmBlock(b, false).Succ, "ledger-stores-block")
		sc.blockIDs = append(sc.blockIDs, b.Blockid)
		sc.txIDs = append(sc.txIDs, []byte("cbx"), []byte("t2"))
		lbefore = coreL()
		f.FailAt = f.Writes + vrt.Choice("write", 2)
		err := sc.s.Play(b.Blockid)
		failed := f.Writes > f.FailAt
		f.FailAt = -1
		vrt.Cover("play-write-failed", failed && err != nil)
		if err == nil {
			stateMustBeUnchanged = false
		}
	case 7: // the miner's way of applying its own block: the award applies, the generated transaction after it cites a stale key version
		ag := vkit.WithKey(vkit.Tx("ag", nil, nil), "bk", "k1", nil, 0, []byte("stale"))
		ag.Autogen = true
		b := vkit.Block(sc.b1.Blockid, 9, []*pb.Transaction{vkit.Coinbase("cbx", "M", []byte{7}), ag})
		vrt.Assert(sc.e.L.ConfirmBlock(b, false).Succ, "ledger-stores-block")
		sc.blockIDs = append(sc.blockIDs, b.Blockid)
		sc.txIDs = append(sc.txIDs, []byte("cbx"), []byte("ag"))
		lbefore = coreL()
		err := sc.s.PlayForMiner(b.Blockid)
		vrt.Assert(err != nil, "block-with-stale-generated-transaction-refused")
		sc.failedMinerPlay = true
	case 8: // pool submission whose token inputs are fine but which cites a stale version of the key it writes
		stale := vkit.Tx("stale", []*protos.TxInput{vkit.In([]byte("t1"), 0, "B", sc.x)}, []*protos.TxOutput{vkit.Out("C", sc.x, 0)})
		vkit.WithKey(stale, "bk", "k1", nil, 0, []byte("late"))
		err := sc.s.DoTx(stale)
		vrt.Assert(err != nil, "stale-key-version-refused")
	case 5: // pool submission with a missing input
		err := sc.s.DoTx(sc.badTx())
		vrt.Assert(err != nil, "missing-input-refused")
	case 6: // storage write error while admitting a valid pool transaction
		f.FailAt = f.Writes + vrt.Choice("write", 2)
		err := sc.s.DoTx(sc.goodTx2())
		failed := f.Writes > f.FailAt
		f.FailAt = -1
		vrt.Cover("dotx-write-failed", failed && err != nil)
		if err == nil {
			stateMustBeUnchanged = false
		}
	}
	vrt.Quiesce()
	after, lafter := sc.observe()
	// known-finding class: the failing operation was the play of a block (see known_findings.json)
	failedPlay := kind == 3 || kind == 4
	if stateMustBeUnchanged {
		vkit.Same(before, after, func(c bool, label string) {
			vrt.Known("failed-block-play-leaves-memory-mutated", failedPlay)
			vrt.Known("failed-miner-block-play-leaves-memory-mutated", sc.failedMinerPlay)
			vrt.Assert(c, "failed-operation-leaves-state-"+label)
		})
	}
	if ledgerMustBeUnchanged {
		// compare only what was observable before (ids added for the failed operation must be absent)
		vkit.SameStrings(lbefore, coreL(), vrt.Assert, "failed-operation-leaves-ledger-answers-unchanged")
		for _, l := range lafter {
			vrt.Assert(len(l) < 27 || l[len(l)-27:] != "header-served-without-block", "refused-block-is-not-served")
		}
	}
	sc.liveEqualsReopened("after-failure", failedPlay && stateMustBeUnchanged)
	_ = b2
	// the node carries on like one that never saw the failed operation
	if kind == 0 || kind == 1 || kind == 5 || kind == 8 {
		vb := vkit.Block(sc.b1.Blockid, 20, []*pb.Transaction{vkit.Coinbase("cbv", "M", []byte{7}), sc.goodTx2()})
		vrt.Assert(sc.e.L.ConfirmBlock(vb, false).Succ, "valid-block-confirmed-after-failure")
		vrt.Assert(sc.s.Play(vb.Blockid) == nil, "valid-block-plays-after-failure")
		rep := sc.e.NewState("clean-replica")
		for _, b := range []*pb.InternalBlock{sc.e.Root, sc.b1, vb} {
			vrt.Assert(rep.Play(b.Blockid) == nil, "replica-plays-chain-in-order")
		}
		vkit.Same(vkit.Observe(sc.s), vkit.Observe(rep), func(c bool, label string) { vrt.Assert(c, "after-failure-node-equals-clean-node-"+label) })
		sc.blockIDs = append(sc.blockIDs, vb.Blockid)
		sc.liveEqualsReopened("after-follow-up", false)
	}
}

func VerifC05Quick() { verifC05() }

// ---------------------------------------------------------------- C06

// c06scenario runs scenario k on the scene; returns the blocks it stored in the ledger (in order).
func c06scenario(sc *scene, k int) {
	b2 := vkit.Block(sc.b1.Blockid, 2, []*pb.Transaction{vkit.Coinbase("cb2", "M", []byte{7}), sc.goodTx2()})
	switch k {
	case 0: // a peer's block: confirm, then play
		sc.blockIDs = append(sc.blockIDs, b2.Blockid)
		if sc.e.L.ConfirmBlock(b2, false).Succ {
			sc.s.Play(b2.Blockid)
		}
	case 1: // pool admission
		sc.s.DoTx(sc.goodTx2())
	case 2: // miner path: pool admission, own block confirmed and applied with PlayForMiner
		sc.blockIDs = append(sc.blockIDs, b2.Blockid)
		if sc.s.DoTx(sc.goodTx2()) == nil {
			if sc.e.L.ConfirmBlock(b2, false).Succ {
				sc.s.PlayForMiner(b2.Blockid)
			}
		}
	case 3: // a longer fork arrives (two award-only blocks), the state walks across: undo of b1, redo of the fork
		c1 := vkit.Block(sc.e.Root.Blockid, 3, []*pb.Transaction{vkit.Coinbase("cb3", "M", []byte{7})})
		c2 := vkit.Block(c1.Blockid, 4, []*pb.Transaction{vkit.Coinbase("cb4", "M", []byte{7})})
		sc.blockIDs = append(sc.blockIDs, c1.Blockid, c2.Blockid)
		if sc.e.L.ConfirmBlock(c1, false).Succ && sc.e.L.ConfirmBlock(c2, false).Succ {
			sc.s.Walk(c2.Blockid, false)
			vrt.Quiesce()
		}
	case 5: // the pool holds a transaction when a peer's block carrying the same transaction arrives
		sc.blockIDs = append(sc.blockIDs, b2.Blockid)
		if sc.s.DoTx(sc.goodTx2()) == nil {
			if sc.e.L.ConfirmBlock(b2, false).Succ {
				sc.s.Play(b2.Blockid)
			}
		}
	case 6: // the pool holds a transaction when a peer's block carrying a conflicting one arrives: the pending one is undone
		t2x := vkit.Tx("t2x", []*protos.TxInput{vkit.In([]byte("t1"), 0, "B", sc.x)}, []*protos.TxOutput{vkit.Out("D", sc.x, 0)})
		vkit.WithKey(t2x, "bk", "k1", []byte("t1"), 0, []byte("other"))
		b2x := vkit.Block(sc.b1.Blockid, 5, []*pb.Transaction{vkit.Coinbase("cb5", "M", []byte{7}), t2x})
		sc.blockIDs = append(sc.blockIDs, b2x.Blockid)
		if sc.s.DoTx(sc.goodTx2()) == nil {
			if sc.e.L.ConfirmBlock(b2x, false).Succ {
				sc.s.Play(b2x.Blockid)
			}
		}
	case 8: // as 6 with a second pending transaction that spends the first one's output: both are undone
		t2x := vkit.Tx("t2x", []*protos.TxInput{vkit.In([]byte("t1"), 0, "B", sc.x)}, []*protos.TxOutput{vkit.Out("D", sc.x, 0)})
		vkit.WithKey(t2x, "bk", "k1", []byte("t1"), 0, []byte("other"))
		b2x := vkit.Block(sc.b1.Blockid, 5, []*pb.Transaction{vkit.Coinbase("cb5", "M", []byte{7}), t2x})
		sc.blockIDs = append(sc.blockIDs, b2x.Blockid)
		t3 := vkit.Tx("t3", []*protos.TxInput{vkit.In([]byte("t2"), 0, "C", sc.x)}, []*protos.TxOutput{vkit.Out("D", sc.x, 0)})
		if sc.s.DoTx(sc.goodTx2()) == nil && sc.s.DoTx(t3) == nil {
			if sc.e.L.ConfirmBlock(b2x, false).Succ {
				sc.s.Play(b2x.Blockid)
			}
		}
	case 7: // the pool holds a transaction (spending an output of b1) when the state walks to a longer fork that lacks b1
		c1 := vkit.Block(sc.e.Root.Blockid, 3, []*pb.Transaction{vkit.Coinbase("cb3", "M", []byte{7})})
		c2 := vkit.Block(c1.Blockid, 4, []*pb.Transaction{vkit.Coinbase("cb4", "M", []byte{7})})
		sc.blockIDs = append(sc.blockIDs, c1.Blockid, c2.Blockid)
		if sc.s.DoTx(sc.goodTx2()) == nil {
			if sc.e.L.ConfirmBlock(c1, false).Succ && sc.e.L.ConfirmBlock(c2, false).Succ {
				sc.s.Walk(c2.Blockid, false)
				vrt.Quiesce()
			}
		}
	case 4: // truncation as the miner does it: the state walks back to the target, then the ledger drops what lies above
		sc.blockIDs = append(sc.blockIDs, b2.Blockid)
		if sc.e.L.ConfirmBlock(b2, false).Succ && sc.s.Play(b2.Blockid) == nil {
			if sc.s.Walk(sc.b1.Blockid, false) == nil {
				vrt.Quiesce()
				sc.e.L.Truncate(sc.b1.Blockid)
			}
		}
	}
}

// verifC06: crash (panic before the c-th storage write, c over every write the
// scenario issues, across both databases) and restart.
func verifC06() {
	k := vrt.Choice("scenario", 9)
	// reference run: counts the writes of the scenario
	fr := newFaults()
	ref := newScene("c06ref", fr)
	w0 := fr.Writes
	c06scenario(ref, k)
	total := fr.Writes - w0

	f := newFaults()
	sc := newScene("c06", f)
	vrt.Assume(sc.x.Cmp(ref.x) == 0)
	base := f.Writes
	c := vrt.Choice("crash-before-write", total+1) // == total: no crash
	f.CrashAt = base + c
	crashed := false
	func() {
		defer func() {
			if r := recover(); r != nil {
				if _, ok := r.(memdb.Crash); ok {
					crashed = true
					return
				}
				panic(r)
			}
		}()
		c06scenario(sc, k)
	}()
	f.CrashAt = -1
	vrt.Cover("crashed", crashed)
	vrt.Cover("completed", !crashed)
	vrt.Assert(crashed == (c < total), "crash-injected-where-planned")

	// restart: everything in memory is gone; both stores are reopened by the real constructors
	l := sc.e.Reopen()
	sc.e.L = l
	s := sc.e.NewState("live")
	// ledger invariants at the recovered tip
	meta := l.GetMeta()
	tipb, err := l.QueryBlockHeader(meta.TipBlockid)
	vrt.Assert(err == nil && tipb.InTrunk && tipb.Height == meta.TrunkHeight, "recovered-tip-is-a-stored-trunk-block-at-the-recorded-height")
	var chain []*pb.InternalBlock
	cur := tipb
	for depth := 0; cur != nil && depth < 8; depth++ {
		chain = append([]*pb.InternalBlock{cur}, chain...)
		bh, err := l.QueryBlockByHeight(cur.Height)
		vrt.Assert(err == nil && string(bh.Blockid) == string(cur.Blockid), "recovered-height-index-follows-main-chain")
		vrt.Assert(cur.InTrunk, "recovered-main-chain-blocks-are-in-trunk")
		if len(cur.PreHash) == 0 {
			break
		}
		p, err := l.QueryBlockHeader(cur.PreHash)
		vrt.Assert(err == nil && p.Height+1 == cur.Height && string(p.NextHash) == string(cur.Blockid), "recovered-links-are-consistent")
		if err != nil {
			break
		}
		cur = p
	}
	vrt.Assert(len(chain) > 0 && string(chain[0].Blockid) == string(sc.e.Root.Blockid), "recovered-main-chain-reaches-genesis")
	// the state's pointer names a stored block and the state equals a replica played to it (plus its pool)
	ptr := s.GetLatestBlockid()
	pb0, err := l.QueryBlockHeader(ptr)
	vrt.Assert(err == nil, "recovered-state-pointer-names-a-stored-block")
	if err != nil {
		return
	}
	var path []*pb.InternalBlock
	for b := pb0; ; {
		path = append([]*pb.InternalBlock{b}, path...)
		if len(b.PreHash) == 0 {
			break
		}
		p, err := l.QueryBlockHeader(b.PreHash)
		if err != nil {
			vrt.Assert(false, "recovered-state-pointer-chain-is-stored")
			return
		}
		b = p
	}
	rep := sc.e.NewState("replica-at-pointer")
	for _, b := range path {
		vrt.Assert(rep.Play(b.Blockid) == nil, "replica-plays-chain-in-order")
	}
	pool, perr := s.GetUnconfirmedTx(false)
	vrt.Assert(perr == nil, "recovered-pool-readable")
	for _, t := range pool {
		vrt.Assert(rep.DoTx(t) == nil, "recovered-pool-transaction-is-valid-on-the-recovered-state")
	}
	vkit.Same(vkit.Observe(s), vkit.Observe(rep), func(c bool, label string) { vrt.Assert(c, "recovered-state-equals-replica-at-its-pointer-"+label) })
	// synchronising to the ledger tip succeeds and gives the state of a node that played the main chain
	onChain := false
	for _, b := range chain {
		if string(b.Blockid) == string(ptr) {
			onChain = true
		}
	}
	if onChain {
		started := false
		for _, b := range chain {
			if started {
				vrt.Assert(s.Play(b.Blockid) == nil, "sync-to-ledger-tip-succeeds")
			}
			if string(b.Blockid) == string(ptr) {
				started = true
			}
		}
	} else {
		// the state sits on the abandoned branch: walk across (redo leg = award-only blocks in scenario 3)
		err := s.Walk(meta.TipBlockid, false)
		vrt.Quiesce()
		vrt.Assert(err == nil, "sync-to-ledger-tip-succeeds")
	}
	rep2 := sc.e.NewState("replica-at-tip")
	for _, b := range chain {
		vrt.Assert(rep2.Play(b.Blockid) == nil, "replica-plays-chain-in-order")
	}
	so := vkit.Observe(s)
	ro := vkit.Observe(rep2)
	// pending transactions the tip did not confirm stay pending on the synchronised node only
	if pl, _ := s.GetUnconfirmedTx(false); len(pl) == 0 {
		vkit.Same(so, ro, func(c bool, label string) {
			vrt.Assert(c, "synchronised-state-equals-node-that-played-the-main-chain-"+label)
		})
	}
}

func VerifC06Quick() { verifC06() }

// ---------------------------------------------------------------- C12 (submissions)

// verifC12Submit: T concurrent DoTx of (possibly) conflicting transactions under every interleaving of the
// synchronisation operations within the preemption bound. The outcome must equal that of SOME one-at-a-time
// order of the same requests: the admitted ones are conflict-free, at least the requests a sequential order
// would admit first are not all refused, and the final state equals a node that admitted them one by one.
func verifC12Submit(T int) {
	e := vkit.NewEnv("c12", vkit.Genesis("0", "9", "5"), nil)
	s := e.NewState("live")
	vrt.Assert(s.Play(e.Root.Blockid) == nil, "genesis-plays")
	// a node that has answered queries before: balance and output caches are warm when the requests arrive
	_ = vkit.Observe(s)
	root := e.RootTx.Txid
	nine, five := big.NewInt(9), big.NewInt(5)
	x := big.NewInt(vrt.Int("x", 1, 9))
	mkfam := func() []*pb.Transaction {
		p1 := vkit.WithKey(vkit.Tx("p1", []*protos.TxInput{vkit.In(root, 0, "A", nine)}, []*protos.TxOutput{vkit.Out("C", x, 0), vkit.Out("A", new(big.Int).Sub(nine, x), 0)}), "bk", "k1", nil, 0, []byte("p1"))
		p2 := vkit.WithKey(vkit.Tx("p2", []*protos.TxInput{vkit.In(root, 0, "A", nine)}, []*protos.TxOutput{vkit.Out("B", nine, 0)}), "bk", "k1", nil, 0, nil)
		p3 := vkit.WithKey(vkit.Tx("p3", []*protos.TxInput{vkit.In(root, 1, "B", five)}, []*protos.TxOutput{vkit.Out("C", five, 0)}), "bk", "k1", nil, 0, []byte("p3"))
		p5 := vkit.WithKey(vkit.Tx("p5", []*protos.TxInput{vkit.In(root, 1, "B", five)}, []*protos.TxOutput{vkit.Out("A", five, 0)}), "bk", "k2", nil, 0, []byte("p5"))
		return []*pb.Transaction{p1, p2, p3, p5}
	}
	fam := mkfam()
	// conflicts: p1-p2 (same output), p1-p3 (same key version, both write), p2-p3 (p2 reads what p3 overwrites:
	// both orders are serialisable only as p2 before p3), p3-p5 (same output), p1-p5 none, p2-p5 none
	pick := make([]int, T)
	for t := range pick {
		pick[t] = vrt.Choice("request", len(fam))
		for u := 0; u < t; u++ {
			if pick[u] == pick[t] {
				return // the same transaction twice is the duplicate case of C03
			}
		}
	}
	errs := make([]error, T)
	var wg sync.WaitGroup
	vrt.ExploreSchedules(true)
	for t := 0; t < T; t++ {
		wg.Add(1)
		go func(t int) {
			defer wg.Done()
			errs[t] = s.DoTx(fam[pick[t]])
		}(t)
	}
	wg.Wait()
	vrt.ExploreSchedules(false)
	vrt.Quiesce()
	var admitted []int
	for t := 0; t < T; t++ {
		if errs[t] == nil {
			admitted = append(admitted, pick[t])
		}
	}
	vrt.Cover("both-admitted", len(admitted) >= 2) // no three members of the family are pairwise compatible
	vrt.Cover("one-refused", len(admitted) < T)
	vrt.Assert(len(admitted) >= 1, "not-every-request-refused")
	// the final state equals a node that admitted exactly these, one at a time, in some order
	okOrder := false
	var perm func(rest []int, done []int)
	perm = func(rest []int, done []int) {
		if okOrder {
			return
		}
		if len(rest) == 0 {
			rep := e.NewState("seq" + string([]byte{byte('0' + len(done))}) + orderTag(done))
			if rep.Play(e.Root.Blockid) != nil {
				return
			}
			f2 := mkfam()
			for _, i := range done {
				if rep.DoTx(f2[i]) != nil {
					return
				}
			}
			same := true
			vkit.Same(vkit.Observe(s), vkit.Observe(rep), func(c bool, label string) {
				if !c {
					same = false
				}
			})
			if same {
				okOrder = true
			}
			return
		}
		for i := range rest {
			r2 := append(append([]int{}, rest[:i]...), rest[i+1:]...)
			perm(r2, append(append([]int{}, done...), rest[i]))
		}
	}
	perm(admitted, nil)
	vrt.Assert(okOrder, "outcome-equals-some-one-at-a-time-order-of-the-admitted-requests")
}

func orderTag(o []int) string {
	b := []byte{}
	for _, i := range o {
		b = append(b, byte('a'+i))
	}
	return string(b)
}

func VerifC12SubmitQuick()    { verifC12Submit(2) }
func VerifC12SubmitThorough() { verifC12Submit(3) }

// ---------------------------------------------------------------- C12 (locking selections)

// verifC12Select: T concurrent SelectUtxos(A, amount, needLock) calls with arbitrary amounts over an
// address holding two outputs (4 and 5), under every interleaving of the synchronisation operations
// within the preemption bound: no output is handed to two selectors, a successful selection covers
// the amount it was asked for, and no call deadlocks.
func verifC12Select(T int) {
	e := vkit.NewEnv("c12s", vkit.Genesis("0", "9", "5"), nil)
	s := e.NewState("live")
	vrt.Assert(s.Play(e.Root.Blockid) == nil, "genesis-plays")
	t1 := vkit.Tx("t1", []*protos.TxInput{vkit.In(e.RootTx.Txid, 0, "A", big.NewInt(9))}, []*protos.TxOutput{vkit.Out("A", big.NewInt(4), 0), vkit.Out("A", big.NewInt(5), 0)})
	b1 := vkit.Block(e.Root.Blockid, 1, []*pb.Transaction{vkit.Coinbase("cb1", "M", []byte{7}), t1})
	vrt.Assert(e.L.ConfirmBlock(b1, false).Succ && s.Play(b1.Blockid) == nil, "prior-state-built")
	need := make([]*big.Int, T)
	for t := range need {
		need[t] = big.NewInt(vrt.Int("amount", 1, 9))
	}
	got := make([][]*protos.TxInput, T)
	sums := make([]*big.Int, T)
	errs := make([]error, T)
	var wg sync.WaitGroup
	vrt.ExploreSchedules(true)
	for t := 0; t < T; t++ {
		wg.Add(1)
		go func(t int) {
			defer wg.Done()
			got[t], _, sums[t], errs[t] = s.SelectUtxos("A", need[t], true, false)
		}(t)
	}
	wg.Wait()
	vrt.ExploreSchedules(false)
	handed := map[string]int{}
	nok := 0
	for t := 0; t < T; t++ {
		if errs[t] != nil {
			continue
		}
		nok++
		vrt.Assert(sums[t] != nil && sums[t].Cmp(need[t]) >= 0, "successful-selection-covers-the-amount")
		for _, in := range got[t] {
			k := string(in.RefTxid) + "/" + string([]byte{byte('0' + in.RefOffset)})
			handed[k]++
			vrt.Assert(handed[k] == 1, "locked-output-is-never-handed-to-two-selectors")
		}
	}
	vrt.Cover("two-selections-succeed", nok >= 2)
	vrt.Cover("a-selection-is-refused", nok < T)
}

func VerifC12SelectQuick() { verifC12Select(2) }

// ---------------------------------------------------------------- C12 (block play against a submission)

// verifC12PlayVsSubmit: a peer's block (award + p1) is played while a transaction is submitted to the
// pool concurrently - p1 itself, a transaction conflicting with p1, or an independent one - under every
// interleaving within the preemption bound. The node must end up like a node that did the two
// operations one after the other, in one of the two orders.
func verifC12PlayVsSubmit() {
	x := big.NewInt(vrt.Int("x", 1, 8))
	mk := func(name string) (*vkit.Env, *state.State, *pb.InternalBlock, []*pb.Transaction) {
		e := vkit.NewEnv(name, vkit.Genesis("0", "9", "5"), nil)
		s := e.NewState("live")
		vrt.Assert(s.Play(e.Root.Blockid) == nil, "genesis-plays")
		root := e.RootTx.Txid
		nine, five := big.NewInt(9), big.NewInt(5)
		p1 := vkit.WithKey(vkit.Tx("p1", []*protos.TxInput{vkit.In(root, 0, "A", nine)}, []*protos.TxOutput{vkit.Out("C", x, 0), vkit.Out("A", new(big.Int).Sub(nine, x), 0)}), "bk", "k1", nil, 0, []byte("p1"))
		p2 := vkit.Tx("p2", []*protos.TxInput{vkit.In(root, 0, "A", nine)}, []*protos.TxOutput{vkit.Out("B", nine, 0)})
		p3 := vkit.Tx("p3", []*protos.TxInput{vkit.In(root, 1, "B", five)}, []*protos.TxOutput{vkit.Out("C", five, 0)})
		p1b := *p1 // the copy that travels in the block
		b := vkit.Block(e.Root.Blockid, 1, []*pb.Transaction{vkit.Coinbase("cb1", "M", []byte{7}), &p1b})
		vrt.Assert(e.L.ConfirmBlock(b, false).Succ, "block-confirmed-by-ledger")
		return e, s, b, []*pb.Transaction{p1, p2, p3}
	}
	which := vrt.Choice("submitted", 3)
	_, s, b, fam := mk("c12p")
	var perr, derr error
	var wg sync.WaitGroup
	vrt.ExploreSchedules(true)
	wg.Add(2)
	go func() { defer wg.Done(); perr = s.Play(b.Blockid) }()
	go func() { defer wg.Done(); derr = s.DoTx(fam[which]) }()
	wg.Wait()
	vrt.ExploreSchedules(false)
	vrt.Quiesce()
	live := vkit.Observe(s)
	// the two one-at-a-time orders on fresh nodes
	matches := false
	for order := 0; order < 2; order++ {
		_, r, rb, rfam := mk("c12p-ref" + string([]byte{byte('0' + order)}))
		var rp, rd error
		if order == 0 {
			rd = r.DoTx(rfam[which])
			rp = r.Play(rb.Blockid)
		} else {
			rp = r.Play(rb.Blockid)
			rd = r.DoTx(rfam[which])
		}
		vrt.Quiesce()
		same := (rp == nil) == (perr == nil) && (rd == nil) == (derr == nil)
		vkit.Same(live, vkit.Observe(r), func(c bool, label string) {
			if !c {
				same = false
			}
		})
		if same {
			matches = true
		}
	}
	vrt.Cover("submission-refused", derr != nil)
	vrt.Cover("submission-admitted", derr == nil)
	vrt.Assert(perr == nil, "valid-block-is-played")
	vrt.Assert(matches, "outcome-equals-one-of-the-two-sequential-orders")
}

func VerifC12PlayVsSubmit() { verifC12PlayVsSubmit() }

// VerifC01FrozenClaim: as VerifC01AnyStart, but the spender of the once-frozen output claims another
// frozen height in its input than the output really has (the input's field is covered by the signed
// digest, chosen by the spender, and not compared with the output on admission).
func VerifC01FrozenClaim() { frozenClaimSkew, skipProbe = 1, true; walksFrom(2, "0", 0, true) }
