package hst

// Harness for property C13. Injected by overlay from /verif.
//
// The miner's assembly (kernel/engines/xuperos/miner packBlock: award, then the pool in the order
// State.GetUnconfirmedTx yields, block formatted and confirmed, PlayForMiner on the producer) is
// re-enacted with the real pool, sort, ledger and state code; consensus, signing and the timer
// transaction are not part of it.

import (
	"math/big"

	pb "github.com/xuperchain/xupercore/bcs/ledger/xledger/xldgpb"
	"github.com/xuperchain/xupercore/protos"
	"github.com/xuperchain/xupercore/zzverif/vrt"
	"github.com/xuperchain/xupercore/zzverif/vrt/vkit"
)

type c13tx struct {
	tx     *pb.Transaction
	after  []int // members whose outputs / key versions it consumes
	before []int // members that overwrite a key it only read
}

func verifC13(extra bool) {
	vrt.PermuteMaps(false)
	e := vkit.NewEnv("c13", vkit.Genesis("0", "9", "5"), nil)
	s := e.NewState("producer")
	vrt.Assert(s.Play(e.Root.Blockid) == nil, "genesis-plays")
	root := e.RootTx.Txid
	nine, five := big.NewInt(9), big.NewInt(5)
	x := big.NewInt(vrt.Int("x", 1, 8))
	rest := new(big.Int).Sub(nine, x)
	in := func(id string, off int32, from string, a *big.Int) []*protos.TxInput {
		return []*protos.TxInput{vkit.In([]byte(id), off, from, a)}
	}
	var fam []c13tx
	nfam := 6
	if extra {
		nfam = 8
	}
	switch vrt.Choice("family", nfam) {
	case 6: // two independent chains
		fam = []c13tx{
			{vkit.Tx("a1", in(string(root), 0, "A", nine), []*protos.TxOutput{vkit.Out("C", x, 0), vkit.Out("A", rest, 0)}), nil, nil},
			{vkit.Tx("b1", in(string(root), 1, "B", five), []*protos.TxOutput{vkit.Out("C", five, 0)}), nil, nil},
			{vkit.Tx("a2", in("a1", 0, "C", x), []*protos.TxOutput{vkit.Out("B", x, 0)}), []int{0}, nil},
			{vkit.Tx("b2", in("b1", 0, "C", five), []*protos.TxOutput{vkit.Out("A", five, 0)}), []int{1}, nil},
		}
	case 7: // writer, two readers of its version, overwriter
		fam = []c13tx{
			{vkit.WithKey(vkit.Tx("w1", nil, nil), "bk", "k1", nil, 0, []byte("one")), nil, nil},
			{vkit.WithKey(vkit.Tx("r1", nil, nil), "bk", "k1", []byte("w1"), 0, nil), []int{0}, []int{3}},
			{vkit.WithKey(vkit.Tx("r2", nil, nil), "bk", "k1", []byte("w1"), 0, nil), []int{0}, []int{3}},
			{vkit.WithKey(vkit.Tx("w2", nil, nil), "bk", "k1", []byte("w1"), 0, vrt.Bytes("v", 1)), []int{0}, nil},
		}
	case 5: // a reader of an absent key, the creator of that key, and the creator of another absent key
		fam = []c13tx{
			{vkit.WithKey(vkit.Tx("r1", nil, nil), "bk", "k1", nil, 0, nil), nil, []int{1}},
			{vkit.WithKey(vkit.Tx("w1", nil, nil), "bk", "k1", nil, 0, []byte("one")), nil, nil},
			{vkit.WithKey(vkit.Tx("w2", nil, nil), "bk", "k2", nil, 0, vrt.Bytes("v", 1)), nil, nil},
		}
	case 0: // dependency chain
		fam = []c13tx{
			{vkit.Tx("p1", in(string(root), 0, "A", nine), []*protos.TxOutput{vkit.Out("C", x, 0), vkit.Out("A", rest, 0)}), nil, nil},
			{vkit.Tx("p2", in("p1", 0, "C", x), []*protos.TxOutput{vkit.Out("B", x, 0)}), []int{0}, nil},
			{vkit.Tx("p3", in("p2", 0, "B", x), []*protos.TxOutput{vkit.Out("A", x, 0)}), []int{1}, nil},
		}
	case 1: // diamond
		fam = []c13tx{
			{vkit.Tx("p1", in(string(root), 0, "A", nine), []*protos.TxOutput{vkit.Out("C", x, 0), vkit.Out("A", rest, 0)}), nil, nil},
			{vkit.Tx("pa", in("p1", 0, "C", x), []*protos.TxOutput{vkit.Out("B", x, 0)}), []int{0}, nil},
			{vkit.Tx("pb", in("p1", 1, "A", rest), []*protos.TxOutput{vkit.Out("B", rest, 0)}), []int{0}, nil},
			{vkit.Tx("pj", []*protos.TxInput{vkit.In([]byte("pa"), 0, "B", x), vkit.In([]byte("pb"), 0, "B", rest)}, []*protos.TxOutput{vkit.Out("A", nine, 0)}), []int{1, 2}, nil},
		}
	case 2: // two read-only sharers of a key, then a writer of it
		fam = []c13tx{
			{vkit.WithKey(vkit.Tx("r1", nil, nil), "bk", "k1", nil, 0, nil), nil, []int{2}},
			{vkit.WithKey(vkit.Tx("r2", nil, nil), "bk", "k1", nil, 0, nil), nil, []int{2}},
			{vkit.WithKey(vkit.Tx("w1", nil, nil), "bk", "k1", nil, 0, vrt.Bytes("v", 1)), nil, nil},
		}
	case 3: // key chain: writer, overwriter, reader of the second version, and a fee payer
		fam = []c13tx{
			{vkit.WithKey(vkit.Tx("w1", nil, nil), "bk", "k1", nil, 0, []byte("one")), nil, nil},
			{vkit.WithKey(vkit.Tx("w2", nil, nil), "bk", "k1", []byte("w1"), 0, []byte("two")), []int{0}, nil},
			{vkit.WithKey(vkit.Tx("r3", nil, nil), "bk", "k1", []byte("w2"), 0, nil), []int{1}, nil},
			{vkit.Tx("fee", in(string(root), 1, "B", five), []*protos.TxOutput{vkit.Out("$", big.NewInt(1), 0), vkit.Out("B", big.NewInt(4), 0)}), nil, nil},
		}
	case 4: // a reader of the first version admitted between writer and overwriter
		fam = []c13tx{
			{vkit.WithKey(vkit.Tx("w1", nil, nil), "bk", "k1", nil, 0, []byte("one")), nil, nil},
			{vkit.WithKey(vkit.Tx("r1", nil, nil), "bk", "k1", []byte("w1"), 0, nil), []int{0}, []int{2}},
			{vkit.WithKey(vkit.Tx("w2", nil, nil), "bk", "k1", []byte("w1"), 0, []byte("two")), []int{0}, nil},
		}
	}
	for i := range fam {
		vrt.Assert(s.DoTx(fam[i].tx) == nil, "pool-admits-the-family-in-a-valid-order")
	}
	vrt.PermuteMaps(true) // every iteration order of the pool's maps
	pool, err := s.GetUnconfirmedTx(false)
	vrt.PermuteMaps(false)
	vrt.Assert(err == nil && len(pool) == len(fam), "pool-yields-every-pending-transaction")
	if err != nil || len(pool) != len(fam) {
		return
	}
	pos := map[string]int{}
	for i, t := range pool {
		pos[string(t.Txid)] = i
	}
	readerBeforeWriter := true
	for i := range fam {
		me := pos[string(fam[i].tx.Txid)]
		for _, d := range fam[i].after {
			vrt.Assert(pos[string(fam[d].tx.Txid)] < me, "pool-order-places-a-transaction-after-what-it-consumes")
		}
		for _, d := range fam[i].before {
			if pos[string(fam[d].tx.Txid)] < me {
				readerBeforeWriter = false
			}
		}
	}
	vrt.Assert(readerBeforeWriter, "pool-order-places-a-reader-before-the-overwriter-of-what-it-read")
	// the block: award first, then the pool in the order it yields
	txs := append([]*pb.Transaction{vkit.Coinbase("cb1", "M", []byte{7})}, pool...)
	b := vkit.Block(e.Root.Blockid, 1, txs)
	vrt.Assert(e.L.ConfirmBlock(b, false).Succ, "own-block-confirmed-by-ledger")
	vrt.Assert(s.PlayForMiner(b.Blockid) == nil, "producer-applies-own-block")
	// a node that never saw those transactions
	rep := e.NewState("replica")
	vrt.Assert(rep.Play(e.Root.Blockid) == nil, "genesis-plays")
	rerr := rep.Play(b.Blockid)
	vrt.Cover("block-with-whole-family-replayed", rerr == nil && len(pool) >= 3)
	vrt.Assert(rerr == nil, "replica-replays-the-produced-block")
	if rerr != nil {
		return
	}
	vkit.Same(vkit.Observe(s), vkit.Observe(rep), func(c bool, label string) { vrt.Assert(c, "replica-reaches-the-producers-state-"+label) })
}

func VerifC13Quick()    { verifC13(false) }
func VerifC13Thorough() { verifC13(true) }
