package hst

// Harness for property C07, acceptance-implies-authorisation part. Injected by overlay from /verif.
// Cryptography is a contract-level stub (vcrypto): key k's public-key string is "K<k>", its address
// "Adr<k>", and a signature by k over m is the byte string "S<k>"+m (so it verifies under key k for
// message m and nothing else); aggregated signatures are "X<k1><k2>.."+m. Real ECDSA is outside the claim.

import (
	"math/big"

	"github.com/xuperchain/xupercore/bcs/ledger/xledger/state/utxo/txhash"
	pb "github.com/xuperchain/xupercore/bcs/ledger/xledger/xldgpb"
	"github.com/xuperchain/xupercore/protos"
	"github.com/xuperchain/xupercore/zzverif/vrt"
	"github.com/xuperchain/xupercore/zzverif/vrt/vcrypto"
	"github.com/xuperchain/xupercore/zzverif/vrt/vkit"
)

const c07Account = "XC1111111111111111@xuper"

// the account's rule: signatures of both Adr1 and Adr2
type c07acl struct{}

func (c07acl) GetAccountACL(name string) (*protos.Acl, error) {
	if name == c07Account {
		return &protos.Acl{Pm: &protos.PermissionModel{Rule: protos.PermissionRule_SIGN_THRESHOLD, AcceptValue: 2},
			AksWeight: map[string]float64{"Adr1": 1, "Adr2": 1}}, nil
	}
	return nil, nil
}
func (c07acl) GetContractMethodACL(contractName, methodName string) (*protos.Acl, error) {
	return nil, nil
}
func (c07acl) GetAccountAddresses(string) ([]string, error) { return nil, nil }

func c07digit(k int64) byte { return byte('0' + k) }

func c07stub() *vcrypto.Stub {
	st := &vcrypto.Stub{}
	st.KeyString = func(id int) string { return string([]byte{'K', byte('0' + id)}) }
	st.ParseKey = func(s string) (int, bool) {
		for id := 0; id < 3; id++ {
			if s == st.KeyString(id) {
				return id, true
			}
		}
		return 0, false
	}
	st.Addr = func(id int) string { return string([]byte{'A', 'd', 'r', byte('0' + id)}) }
	st.Verify = func(id int, sig, msg []byte) bool {
		return len(sig) == 2+len(msg) && sig[0] == 'S' && sig[1] == byte('0'+id) && string(sig[2:]) == string(msg)
	}
	st.XVerify = func(ids []int, sig, msg []byte) bool {
		if len(sig) != 1+len(ids)+len(msg) || sig[0] != 'X' {
			return false
		}
		for i, id := range ids {
			if sig[1+i] != byte('0'+id) {
				return false
			}
		}
		return string(sig[1+len(ids):]) == string(msg)
	}
	return st
}

// c07sign: the signature slot of a transaction under test: claimed public key pk (3 = malformed
// string), signing key k, signed message m (32 arbitrary bytes: the real digest, another
// transaction's digest, or garbage).
type c07sign struct {
	pk, k int64
	m     []byte
}

func c07slot(tag string) (*protos.SignatureInfo, c07sign) {
	s := c07sign{pk: vrt.Int(tag+".pk", 0, 3), k: vrt.Int(tag+".k", 0, 2), m: vrt.Bytes(tag+".m", 32)}
	sig := append([]byte{'S', c07digit(s.k)}, s.m...)
	return &protos.SignatureInfo{PublicKey: string([]byte{'K', c07digit(s.pk)}), Sign: sig}, s
}

// valid: the slot carries a signature over digest that verifies under a key whose address is addr.
func (s c07sign) valid(addr string, digest []byte) bool {
	return s.pk <= 2 && addr == string([]byte{'A', 'd', 'r', c07digit(s.pk)}) && s.k == s.pk && string(s.m) == string(digest)
}

// verifC07Accept: one transfer transaction of the address / multi-signer / account form with
// arbitrary signer names, claimed keys, signing keys and signed messages, a correct or corrupted id.
// Whenever ImmediateVerifyTx accepts it, an independent evaluation must find: the id is the hash of
// the content; the initiator and every listed signer carry a valid signature over the digest of
// this very content; the owner of the spent output is among them or is the account whose rule they satisfy.
func verifC07Accept(version int32, maxAuth int) {
	e := vkit.NewEnv("c07", vkit.Genesis("0", "9", "5"), nil)
	st := c07stub()
	vrt.CryptoClient = st
	s := e.NewStateWith("live", st, c07acl{})
	vrt.Assert(s.Play(e.Root.Blockid) == nil, "genesis-plays")

	adr := func(k int64) string { return string([]byte{'A', 'd', 'r', c07digit(k)}) }
	ini := vrt.Int("initiator", 0, 2)
	tx := &pb.Transaction{Version: version, Initiator: adr(ini), Nonce: "n", Timestamp: 7, Desc: vrt.Bytes("desc", 1)}
	// the owner of the spent output: an address or the account
	ownerIsAccount := vrt.Choice("owner-kind", 2) == 1
	owner := adr(vrt.Int("owner", 0, 2))
	if ownerIsAccount {
		owner = c07Account
	}
	tx.TxInputs = []*protos.TxInput{vkit.In(e.RootTx.Txid, 0, owner, big.NewInt(9))}
	tx.TxOutputs = []*protos.TxOutput{vkit.Out("C", big.NewInt(9), 0)}
	// listed signers
	n := vrt.Choice("signers", maxAuth+1)
	signerAddr := make([]string, n)
	viaAccount := make([]bool, n)
	for j := 0; j < n; j++ {
		signerAddr[j] = adr(vrt.Int("signer", 0, 2))
		viaAccount[j] = vrt.Choice("signer-form", 2) == 1
		if viaAccount[j] {
			tx.AuthRequire = append(tx.AuthRequire, c07Account+"/"+signerAddr[j])
		} else {
			tx.AuthRequire = append(tx.AuthRequire, signerAddr[j])
		}
	}
	digest, err := txhash.MakeTxDigestHash(tx)
	vrt.Assert(err == nil, "digest-computed")
	isig, islot := c07slot("isign")
	tx.InitiatorSigns = []*protos.SignatureInfo{isig}
	slots := make([]c07sign, n)
	dropLast := n > 0 && vrt.Choice("drop-last-signature", 2) == 1
	for j := 0; j < n; j++ {
		var si *protos.SignatureInfo
		si, slots[j] = c07slot("asign")
		if !(dropLast && j == n-1) {
			tx.AuthRequireSigns = append(tx.AuthRequireSigns, si)
		}
	}
	id, err := txhash.MakeTransactionID(tx)
	vrt.Assert(err == nil, "id-computed")
	idOK := vrt.Bool("id-correct")
	tx.Txid = id
	if !idOK {
		tx.Txid = append([]byte{id[0] ^ 1}, id[1:]...)
	}

	ok, verr := s.ImmediateVerifyTx(tx, false)
	accepted := ok && verr == nil
	vrt.Cover("accepted", accepted)
	vrt.Cover("rejected", !accepted)
	vrt.Cover("accepted-account-spend", accepted && ownerIsAccount)
	if !accepted {
		// completeness on the plainest form: a correctly signed single-signer transfer is not refused
		if n == 0 && !ownerIsAccount && idOK && islot.valid(tx.Initiator, digest) && owner == tx.Initiator {
			vrt.Assert(false, "correctly-signed-transfer-is-accepted")
		}
		return
	}
	vrt.Assert(idOK, "accepted-only-with-id-equal-to-content-hash")
	vrt.Assert(!dropLast, "accepted-only-with-a-signature-per-listed-signer")
	vrt.Assert(islot.valid(tx.Initiator, digest), "accepted-only-with-valid-initiator-signature")
	verified := map[string]bool{tx.Initiator: true}
	for j := 0; j < n && !dropLast; j++ {
		vrt.Assert(verified[signerAddr[j]] || slots[j].valid(signerAddr[j], digest), "accepted-only-with-valid-signature-of-every-listed-signer")
		verified[signerAddr[j]] = true
	}
	if !ownerIsAccount {
		vrt.Assert(verified[owner], "accepted-only-if-output-owner-signed")
	} else {
		has1, has2 := false, false
		for j := 0; j < n; j++ {
			if viaAccount[j] && signerAddr[j] == "Adr1" {
				has1 = true
			}
			if viaAccount[j] && signerAddr[j] == "Adr2" {
				has2 = true
			}
		}
		vrt.Assert(has1 && has2, "accepted-account-spend-only-if-rule-satisfied")
	}
}

// verifC07XSign: the aggregated-signature form (XuperSign): one signature over the digest under the
// keys of the initiator and every distinct listed signer, in that order.
func verifC07XSign(version int32, maxAuth int) {
	e := vkit.NewEnv("c07x", vkit.Genesis("0", "9", "5"), nil)
	st := c07stub()
	vrt.CryptoClient = st
	s := e.NewStateWith("live", st, c07acl{})
	vrt.Assert(s.Play(e.Root.Blockid) == nil, "genesis-plays")
	adr := func(k int64) string { return string([]byte{'A', 'd', 'r', c07digit(k)}) }
	tx := &pb.Transaction{Version: version, Initiator: adr(vrt.Int("initiator", 0, 2)), Nonce: "n", Timestamp: 7, Desc: vrt.Bytes("desc", 1)}
	owner := adr(vrt.Int("owner", 0, 2))
	tx.TxInputs = []*protos.TxInput{vkit.In(e.RootTx.Txid, 0, owner, big.NewInt(9))}
	tx.TxOutputs = []*protos.TxOutput{vkit.Out("C", big.NewInt(9), 0)}
	n := vrt.Choice("signers", maxAuth+1)
	addrList := []string{tx.Initiator}
	for j := 0; j < n; j++ {
		a := adr(vrt.Int("signer", 0, 2))
		tx.AuthRequire = append(tx.AuthRequire, a)
		dup := false
		for _, x := range addrList {
			if x == a {
				dup = true
			}
		}
		if !dup {
			addrList = append(addrList, a)
		}
	}
	digest, err := txhash.MakeTxDigestHash(tx)
	vrt.Assert(err == nil, "digest-computed")
	nk := 1 + vrt.Choice("keys", maxAuth+1)
	pks := make([]int64, nk)
	ks := make([]int64, nk)
	m := vrt.Bytes("xsign.m", 32)
	sig := []byte{'X'}
	xs := &pb.XuperSignature{}
	for i := 0; i < nk; i++ {
		pks[i], ks[i] = vrt.Int("xsign.pk", 0, 3), vrt.Int("xsign.k", 0, 2)
		xs.PublicKeys = append(xs.PublicKeys, []byte{'K', c07digit(pks[i])})
		sig = append(sig, c07digit(ks[i]))
	}
	xs.Signature = append(sig, m...)
	tx.XuperSign = xs
	id, err := txhash.MakeTransactionID(tx)
	vrt.Assert(err == nil, "id-computed")
	idOK := vrt.Bool("id-correct")
	tx.Txid = id
	if !idOK {
		tx.Txid = append([]byte{id[0] ^ 1}, id[1:]...)
	}
	ok, verr := s.ImmediateVerifyTx(tx, false)
	accepted := ok && verr == nil
	vrt.Cover("accepted", accepted)
	vrt.Cover("rejected", !accepted)
	vrt.Cover("accepted-with-two-keys", accepted && nk == 2)
	if !accepted {
		return
	}
	vrt.Assert(idOK, "accepted-only-with-id-equal-to-content-hash")
	vrt.Assert(nk == len(addrList), "accepted-only-with-one-key-per-distinct-signer")
	if nk != len(addrList) {
		return
	}
	for i := 0; i < nk; i++ {
		vrt.Assert(pks[i] <= 2 && adr(pks[i]) == addrList[i], "accepted-only-if-each-key-belongs-to-its-signer")
		vrt.Assert(ks[i] == pks[i], "accepted-only-if-aggregate-was-made-with-the-listed-keys")
	}
	vrt.Assert(string(m) == string(digest), "accepted-only-if-aggregate-signs-this-content")
	inList := false
	for _, a := range addrList {
		if a == owner {
			inList = true
		}
	}
	vrt.Assert(inList, "accepted-only-if-output-owner-signed")
}

// verifC07AccountInitiator: the initiator is a contract account; it is represented by 1..2 signature
// slots whose claimed keys must satisfy the account's rule (Adr1 and Adr2) and each of which must carry
// a valid signature over this content by the key it names.
func verifC07AccountInitiator(version int32) {
	e := vkit.NewEnv("c07a", vkit.Genesis("0", "9", "5"), nil)
	st := c07stub()
	vrt.CryptoClient = st
	s := e.NewStateWith("live", st, c07acl{})
	vrt.Assert(s.Play(e.Root.Blockid) == nil, "genesis-plays")
	adr := func(k int64) string { return string([]byte{'A', 'd', 'r', c07digit(k)}) }
	tx := &pb.Transaction{Version: version, Initiator: c07Account, Nonce: "n", Timestamp: 7, Desc: vrt.Bytes("desc", 1)}
	owner := adr(vrt.Int("owner", 0, 2))
	tx.TxInputs = []*protos.TxInput{vkit.In(e.RootTx.Txid, 0, owner, big.NewInt(9))}
	tx.TxOutputs = []*protos.TxOutput{vkit.Out("C", big.NewInt(9), 0)}
	n := vrt.Choice("signers", 2)
	var signerAddr string
	if n == 1 {
		signerAddr = adr(vrt.Int("signer", 0, 2))
		tx.AuthRequire = []string{c07Account + "/" + signerAddr}
	}
	digest, err := txhash.MakeTxDigestHash(tx)
	vrt.Assert(err == nil, "digest-computed")
	ni := 1 + vrt.Choice("initiator-signatures", 2)
	islots := make([]c07sign, ni)
	for i := 0; i < ni; i++ {
		var si *protos.SignatureInfo
		si, islots[i] = c07slot("isign")
		tx.InitiatorSigns = append(tx.InitiatorSigns, si)
	}
	var aslot c07sign
	if n == 1 {
		var si *protos.SignatureInfo
		si, aslot = c07slot("asign")
		tx.AuthRequireSigns = []*protos.SignatureInfo{si}
	}
	id, err := txhash.MakeTransactionID(tx)
	vrt.Assert(err == nil, "id-computed")
	tx.Txid = id
	ok, verr := s.ImmediateVerifyTx(tx, false)
	accepted := ok && verr == nil
	vrt.Cover("accepted", accepted)
	vrt.Cover("rejected", !accepted)
	if !accepted {
		return
	}
	verified := map[string]bool{}
	has1, has2 := false, false
	for i := 0; i < ni; i++ {
		vrt.Assert(islots[i].pk <= 2, "accepted-only-with-well-formed-initiator-keys")
		a := adr(islots[i].pk)
		vrt.Assert(islots[i].valid(a, digest), "accepted-only-if-every-initiator-slot-carries-a-valid-signature-of-its-key")
		verified[a] = true
		has1 = has1 || a == "Adr1"
		has2 = has2 || a == "Adr2"
	}
	vrt.Assert(has1 && has2, "accepted-only-if-the-initiator-account-rule-is-satisfied-by-its-signers")
	if n == 1 {
		vrt.Assert(verified[signerAddr] || aslot.valid(signerAddr, digest), "accepted-only-with-valid-signature-of-every-listed-signer")
		verified[signerAddr] = true
	}
	vrt.Assert(verified[owner], "accepted-only-if-output-owner-signed")
}

func VerifC07AccountInitiator() { verifC07AccountInitiator(3) }

func VerifC07XSign() { verifC07XSign(3, 2) }

func VerifC07AcceptQuick()    { verifC07Accept(3, 1) }
func VerifC07AcceptThorough() { verifC07Accept(3, 2) }
func VerifC07AcceptV1()       { verifC07Accept(1, 2) }

// verifC07BlockPath: a block from a peer carries a transaction that spends B's output to C with no
// signature at all; the flags that route a block's transaction around ImmediateVerifyTx are arbitrary
// (Autogen, Coinbase). Playing the block (as a node does for a peer's block) and walking to it must be
// refused: nothing is spent unsigned, also through a block.
func verifC07BlockPath() {
	e := vkit.NewEnv("c07b", vkit.Genesis("0", "9", "5"), nil)
	s := e.NewState("live")
	vrt.Assert(s.Play(e.Root.Blockid) == nil, "genesis-plays")
	t := vkit.Tx("steal", []*protos.TxInput{vkit.In(e.RootTx.Txid, 1, "B", big.NewInt(5))}, []*protos.TxOutput{vkit.Out("C", big.NewInt(5), 0)})
	t.Version = 1
	t.Initiator = "C"
	t.Autogen = vrt.Bool("autogen")
	withKey := vrt.Bool("with-ext-output")
	if withKey {
		vkit.WithKey(t, "bk", "k1", nil, 0, []byte("x"))
	}
	txs := []*pb.Transaction{vkit.Coinbase("cb1", "M", []byte{7}), t}
	if vrt.Bool("flagged-coinbase") {
		// the unsigned spend poses as the block's (single) award transaction
		t.Coinbase = true
		txs = []*pb.Transaction{t}
	}
	b := vkit.Block(e.Root.Blockid, 1, txs)
	vrt.Assert(e.L.ConfirmBlock(b, false).Succ, "ledger-stores-block")
	var err error
	if vrt.Choice("path", 2) == 0 {
		err = s.PlayAndRepost(b.Blockid, false, false)
	} else {
		err = s.Walk(b.Blockid, false)
	}
	vrt.Quiesce()
	vrt.Cover("refused", err != nil)
	vrt.Assert(err != nil, "block-with-an-unsigned-spend-is-refused")
	if err == nil {
		bal, _ := s.GetBalance("C")
		vrt.Assert(bal == nil || bal.Sign() == 0, "unsigned-spend-moved-no-tokens")
	}
}

func VerifC07BlockPath() { verifC07BlockPath() }

// VerifC01SignedChain: a block holding a signed spend chain (s2 spends an output s1 creates in the same
// block) beside an award-only branch; the node walks between the blocks of both branches (3 walks, any
// targets), so that the chain is applied by Walk's redo half and taken back by its undo half.  After
// every walk the node - including what SelectUtxos hands out from its output cache - must equal a
// replica that played the path from genesis.  Signatures are the ideal stub's (see the top of this file).
func VerifC01SignedChain() {
	e := vkit.NewEnv("c01s", vkit.Genesis("0", "9", "5"), nil)
	st := vcrypto.Ideal([]string{"A", "B", "C"})
	vrt.CryptoClient = st
	vkit.ObserveSelect = true
	s := e.NewStateWith("live", st, c07acl{})
	vrt.Assert(s.Play(e.Root.Blockid) == nil, "genesis-plays")
	signed := func(id int, from, nonce string, ins []*protos.TxInput, outs []*protos.TxOutput) *pb.Transaction {
		tx := &pb.Transaction{Version: 3, Initiator: from, Nonce: nonce, Timestamp: 7, TxInputs: ins, TxOutputs: outs}
		digest, err := txhash.MakeTxDigestHash(tx)
		vrt.Assert(err == nil, "digest-computed")
		tx.InitiatorSigns = []*protos.SignatureInfo{{PublicKey: st.KeyString(id), Sign: st.Sign(id, digest)}}
		tx.Txid, err = txhash.MakeTransactionID(tx)
		vrt.Assert(err == nil, "id-computed")
		return tx
	}
	s1 := signed(0, "A", "n1", []*protos.TxInput{vkit.In(e.RootTx.Txid, 0, "A", big.NewInt(9))}, []*protos.TxOutput{vkit.Out("B", big.NewInt(4), 0), vkit.Out("A", big.NewInt(5), 0)})
	s2 := signed(1, "B", "n2", []*protos.TxInput{vkit.In(s1.Txid, 0, "B", big.NewInt(4))}, []*protos.TxOutput{vkit.Out("C", big.NewInt(3), 0), vkit.Out("B", big.NewInt(1), 0)})
	s3 := signed(2, "C", "n3", []*protos.TxInput{vkit.In(s2.Txid, 0, "C", big.NewInt(3))}, []*protos.TxOutput{vkit.Out("A", big.NewInt(3), 0)})
	blocks := []*pb.InternalBlock{e.Root}
	parent := []int{-1}
	add := func(p int, nonce int32, txs []*pb.Transaction) int {
		b := vkit.Block(blocks[p].Blockid, nonce, txs)
		vrt.Assert(e.L.ConfirmBlock(b, false).Succ, "block-confirmed-by-ledger")
		blocks = append(blocks, b)
		parent = append(parent, p)
		return len(blocks) - 1
	}
	c1 := add(0, 1, []*pb.Transaction{vkit.Coinbase("cb1", "M", []byte{7}), s1, s2})
	add(c1, 2, []*pb.Transaction{vkit.Coinbase("cb2", "M", []byte{7}), s3})
	d1 := add(0, 3, []*pb.Transaction{vkit.Coinbase("cb3", "M", []byte{7})})
	add(d1, 4, []*pb.Transaction{vkit.Coinbase("cb4", "M", []byte{7})})
	at := 0
	for step := 0; step < 3; step++ {
		target := vrt.Choice("target", len(blocks))
		if target == at {
			continue
		}
		err := s.Walk(blocks[target].Blockid, false)
		vrt.Quiesce()
		vrt.Assert(err == nil, "walk-succeeds")
		if err != nil {
			return
		}
		at = target
		vrt.Cover("chain-applied-by-walk", at == 1 || at == 2)
		rep := e.NewStateWith("replica"+string([]byte{byte('0' + step)}), st, c07acl{})
		var path []int
		for i := at; i >= 0; i = parent[i] {
			path = append([]int{i}, path...)
		}
		for _, i := range path {
			vrt.Assert(rep.Play(blocks[i].Blockid) == nil, "replica-plays-chain-in-order")
		}
		vkit.Same(vkit.Observe(s), vkit.Observe(rep), func(c bool, label string) { vrt.Assert(c, "walked-node-equals-replica-"+label) })
	}
}
