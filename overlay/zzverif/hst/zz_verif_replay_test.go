package hst

import (
	"testing"

	"github.com/xuperchain/xupercore/zzverif/vrt"
)

func TestVerifReplay(t *testing.T) {
	vrt.RunReplay(t, map[string]func(){
		"VerifC01Quick":            VerifC01Quick,
		"VerifC01Thorough":         VerifC01Thorough,
		"VerifC17Walks":            VerifC17Walks,
		"VerifC12SubmitQuick":      VerifC12SubmitQuick,
		"VerifC12SubmitThorough":   VerifC12SubmitThorough,
		"VerifC12SelectQuick":      VerifC12SelectQuick,
		"VerifC12PlayVsSubmit":     VerifC12PlayVsSubmit,
		"VerifC06Quick":            VerifC06Quick,
		"VerifC13Quick":            VerifC13Quick,
		"VerifC13Thorough":         VerifC13Thorough,
		"VerifC07AcceptQuick":      VerifC07AcceptQuick,
		"VerifC07AcceptThorough":   VerifC07AcceptThorough,
		"VerifC07AcceptV1":         VerifC07AcceptV1,
		"VerifC07XSign":            VerifC07XSign,
		"VerifC07BlockPath":        VerifC07BlockPath,
		"VerifC07AccountInitiator": VerifC07AccountInitiator,
		"VerifC05Quick":            VerifC05Quick,
		"VerifC17Walks2":           VerifC17Walks2,
		"VerifC18Quick":            VerifC18Quick,
		"VerifC18Thorough":         VerifC18Thorough,
		"VerifC18Reorg":            VerifC18Reorg,
		"VerifC03Quick":            VerifC03Quick,
		"VerifC03ReaderUndone":     VerifC03ReaderUndone,
		"VerifC03Thorough":         VerifC03Thorough,
		"VerifC02TxQuick":          VerifC02TxQuick,
		"VerifC02TxThorough":       VerifC02TxThorough,
		"VerifC01Deep":             VerifC01Deep,
		"VerifC01AnyStart":         VerifC01AnyStart,
		"VerifC01Select":           VerifC01Select,
		"VerifC01SignedChain":      VerifC01SignedChain,
		"VerifC17AnyStart":         VerifC17AnyStart,
		"VerifC01FrozenClaim":      VerifC01FrozenClaim,
	})
}
