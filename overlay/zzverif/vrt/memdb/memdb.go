// Package memdb is an in-memory implementation of the repository's kvdb
// interfaces used by the verification harnesses. Contract modelled: single
// Put/Delete and Batch.Write are atomic and durable in issue order; iteration
// is in byte order over a snapshot; a missing key yields an error whose text
// ends in "not found" like LevelDB's. A shared write counter allows failing
// (error) or crashing (panic) at the k-th write.
package memdb

import (
	"bytes"
	"errors"

	"github.com/xuperchain/xupercore/lib/storage/kvdb"
)

// ErrNotFound mimics leveldb.ErrNotFound's text.
var ErrNotFound = errors.New("leveldb: not found")

// ErrInjected is returned by the write selected with Faults.FailAt.
var ErrInjected = errors.New("memdb: injected write failure")

// Crash is the panic value raised before the write selected with Faults.CrashAt.
type Crash struct{ At int }

// Faults is shared by all databases of one scenario.
type Faults struct {
	Writes  int // number of write operations issued so far
	FailAt  int // fail the write with this index (-1: never)
	CrashAt int // panic before the write with this index (-1: never)
}

func NoFaults() *Faults { return &Faults{FailAt: -1, CrashAt: -1} }

type entry struct {
	k, v []byte
}

type DB struct {
	ents []entry // sorted by key
	F    *Faults
	Name string
}

func New(f *Faults) *DB {
	if f == nil {
		f = NoFaults()
	}
	return &DB{F: f}
}

var (
	registry   = map[string]*DB{}     // DBPath -> database ("reopen" sees the same data)
	faultsFor  = map[string]*Faults{} // path prefix -> fault plan
	registered bool
)

// Use declares that every database whose path starts with prefix belongs to the
// scenario with fault plan f, and makes the engine name "verifmem" available to
// kvdb.CreateKVInstance. It returns the registry of opened databases.
func Use(prefix string, f *Faults) map[string]*DB {
	faultsFor[prefix] = f
	if !registered {
		registered = true
		kvdb.Register("verifmem", func(p *kvdb.KVParameter) (kvdb.Database, error) {
			if db, ok := registry[p.DBPath]; ok {
				return db, nil
			}
			var f *Faults
			for pre, x := range faultsFor {
				if len(p.DBPath) >= len(pre) && p.DBPath[:len(pre)] == pre {
					f = x
				}
			}
			db := New(f)
			db.Name = p.DBPath
			registry[p.DBPath] = db
			return db, nil
		})
	}
	return registry
}

func (d *DB) search(key []byte) (int, bool) {
	lo, hi := 0, len(d.ents)
	for lo < hi {
		mid := (lo + hi) / 2
		c := bytes.Compare(d.ents[mid].k, key)
		if c == 0 {
			return mid, true
		}
		if c < 0 {
			lo = mid + 1
		} else {
			hi = mid
		}
	}
	return lo, false
}

func clone(b []byte) []byte {
	c := make([]byte, len(b))
	copy(c, b)
	return c
}

func (d *DB) put(key, value []byte) {
	i, ok := d.search(key)
	if ok {
		d.ents[i].v = clone(value)
		return
	}
	d.ents = append(d.ents, entry{})
	copy(d.ents[i+1:], d.ents[i:])
	d.ents[i] = entry{clone(key), clone(value)}
}

func (d *DB) del(key []byte) {
	i, ok := d.search(key)
	if !ok {
		return
	}
	d.ents = append(d.ents[:i], d.ents[i+1:]...)
}

// write accounts for one storage write and applies fault injection.
func (d *DB) write() error {
	w := d.F.Writes
	d.F.Writes++
	if w == d.F.CrashAt {
		panic(Crash{w})
	}
	if w == d.F.FailAt {
		return ErrInjected
	}
	return nil
}

func (d *DB) Open(path string, options map[string]interface{}) error { return nil }
func (d *DB) Close()                                                {}

func (d *DB) Put(key []byte, value []byte) error {
	if err := d.write(); err != nil {
		return err
	}
	d.put(key, value)
	return nil
}

func (d *DB) Get(key []byte) ([]byte, error) {
	i, ok := d.search(key)
	if !ok {
		return nil, ErrNotFound
	}
	return clone(d.ents[i].v), nil
}

func (d *DB) Has(key []byte) (bool, error) {
	_, ok := d.search(key)
	return ok, nil
}

func (d *DB) Delete(key []byte) error {
	if err := d.write(); err != nil {
		return err
	}
	d.del(key)
	return nil
}

// Snapshot returns a deep copy of the data (for comparing states).
func (d *DB) Snapshot() [][2][]byte {
	out := make([][2][]byte, len(d.ents))
	for i, e := range d.ents {
		out[i] = [2][]byte{clone(e.k), clone(e.v)}
	}
	return out
}

// Copy returns an independent database with the same content.
func (d *DB) Copy(f *Faults) *DB {
	n := New(f)
	n.Name = d.Name
	for _, e := range d.ents {
		n.ents = append(n.ents, entry{clone(e.k), clone(e.v)})
	}
	return n
}

// Len returns the number of keys.
func (d *DB) Len() int { return len(d.ents) }

type op struct {
	del  bool
	k, v []byte
}

type Batch struct {
	db   *DB
	ops  []op
	size int
}

func (d *DB) NewBatch() kvdb.Batch { return &Batch{db: d} }

func (b *Batch) ValueSize() int { return b.size }

func (b *Batch) Write() error {
	if err := b.db.write(); err != nil {
		return err
	}
	for _, o := range b.ops {
		if o.del {
			b.db.del(o.k)
		} else {
			b.db.put(o.k, o.v)
		}
	}
	return nil
}

func (b *Batch) Reset() {
	b.ops = nil
	b.size = 0
}

func (b *Batch) Put(key []byte, value []byte) error {
	b.ops = append(b.ops, op{false, clone(key), clone(value)})
	b.size += len(value)
	return nil
}

func (b *Batch) Delete(key []byte) error {
	b.ops = append(b.ops, op{true, clone(key), nil})
	b.size++
	return nil
}

func (b *Batch) PutIfAbsent(key []byte, value []byte) error {
	if b.Exist(key) {
		return errors.New("duplicated key found in batch write")
	}
	return b.Put(key, value)
}

func (b *Batch) Exist(key []byte) bool {
	for _, o := range b.ops {
		if bytes.Equal(o.k, key) {
			return true
		}
	}
	return false
}

// Ops exposes the pending operations (harness observation).
func (b *Batch) Ops() (keys [][]byte, vals [][]byte, dels []bool) {
	for _, o := range b.ops {
		keys = append(keys, o.k)
		vals = append(vals, o.v)
		dels = append(dels, o.del)
	}
	return
}

type Iter struct {
	ents []entry
	pos  int // -1 before first, len after last
}

func (d *DB) NewIteratorWithRange(start []byte, limit []byte) kvdb.Iterator {
	it := &Iter{pos: -1}
	for _, e := range d.ents {
		if start != nil && bytes.Compare(e.k, start) < 0 {
			continue
		}
		if limit != nil && bytes.Compare(e.k, limit) >= 0 {
			break
		}
		it.ents = append(it.ents, entry{clone(e.k), clone(e.v)})
	}
	return it
}

func (d *DB) NewIteratorWithPrefix(prefix []byte) kvdb.Iterator {
	it := &Iter{pos: -1}
	for _, e := range d.ents {
		if bytes.HasPrefix(e.k, prefix) {
			it.ents = append(it.ents, entry{clone(e.k), clone(e.v)})
		}
	}
	return it
}

func (it *Iter) valid() bool { return it.pos >= 0 && it.pos < len(it.ents) }

func (it *Iter) Key() []byte {
	if !it.valid() {
		return nil
	}
	return it.ents[it.pos].k
}

func (it *Iter) Value() []byte {
	if !it.valid() {
		return nil
	}
	return it.ents[it.pos].v
}

func (it *Iter) Next() bool {
	if it.pos < len(it.ents) {
		it.pos++
	}
	return it.valid()
}

func (it *Iter) Prev() bool {
	if it.pos >= 0 {
		it.pos--
	}
	return it.valid()
}

func (it *Iter) Last() bool {
	it.pos = len(it.ents) - 1
	return it.valid()
}

func (it *Iter) First() bool {
	it.pos = 0
	return it.valid()
}

func (it *Iter) Error() error { return nil }
func (it *Iter) Release()     {}
