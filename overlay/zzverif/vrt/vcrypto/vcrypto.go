// Package vcrypto is a contract-level stub of the repository's CryptoClient:
// key parsing, address derivation and signature verification are functions
// supplied by the harness (usually backed by symbolic values). Real ECDSA is
// outside every claim made with this stub.
package vcrypto

import (
	"crypto/ecdsa"
	"errors"
	"math/big"

	"github.com/xuperchain/xupercore/lib/crypto/client/base"
)

// Call records one verification request.
type Call struct {
	Key int
	Sig []byte
	Msg []byte
	Ok  bool
}

type Stub struct {
	base.CryptoClient // nil: methods not modelled panic when called

	// ParseKey maps a public-key string to a key id (ok=false: malformed).
	ParseKey func(s string) (id int, ok bool)
	// Addr is the address derived from key id.
	Addr func(id int) string
	// Verify decides whether sig is a valid signature of msg under key id.
	Verify func(id int, sig, msg []byte) bool

	// KeyString renders key id as the public-key string (inverse of ParseKey).
	KeyString func(id int) string
	// Sign produces the signature of msg under key id; the stub's contract is
	// that Verify(id, Sign(id, msg), msg) holds when the harness says so.
	Sign func(id int, msg []byte) []byte

	// XVerify decides an aggregated signature.
	XVerify func(ids []int, sig, msg []byte) bool

	keys  map[int]*ecdsa.PublicKey
	privs map[int]*ecdsa.PrivateKey
	Calls []Call
}

// PrivKey returns the private-key object of key id.
func (s *Stub) PrivKey(id int) *ecdsa.PrivateKey {
	if s.privs == nil {
		s.privs = map[int]*ecdsa.PrivateKey{}
	}
	if k, ok := s.privs[id]; ok {
		return k
	}
	k := &ecdsa.PrivateKey{PublicKey: *s.key(id), D: big.NewInt(int64(id))}
	s.privs[id] = k
	return k
}

func (s *Stub) privID(k *ecdsa.PrivateKey) int {
	for id, x := range s.privs {
		if x == k {
			return id
		}
	}
	return -1
}

func (s *Stub) GetEcdsaPublicKeyJsonFormatStr(k *ecdsa.PrivateKey) (string, error) {
	id := s.privID(k)
	if id < 0 {
		return "", errors.New("vcrypto: unknown private key object")
	}
	return s.KeyString(id), nil
}

func (s *Stub) SignECDSA(k *ecdsa.PrivateKey, msg []byte) ([]byte, error) {
	id := s.privID(k)
	if id < 0 {
		return nil, errors.New("vcrypto: unknown private key object")
	}
	return s.Sign(id, msg), nil
}

func (s *Stub) key(id int) *ecdsa.PublicKey {
	if s.keys == nil {
		s.keys = map[int]*ecdsa.PublicKey{}
	}
	if k, ok := s.keys[id]; ok {
		return k
	}
	k := &ecdsa.PublicKey{X: big.NewInt(int64(id))}
	s.keys[id] = k
	return k
}

// KeyID returns the id of a key object handed out by this stub, or -1.
func (s *Stub) KeyID(k *ecdsa.PublicKey) int {
	for id, x := range s.keys {
		if x == k {
			return id
		}
	}
	return -1
}

func (s *Stub) GetEcdsaPublicKeyFromJsonStr(keyStr string) (*ecdsa.PublicKey, error) {
	id, ok := s.ParseKey(keyStr)
	if !ok {
		return nil, errors.New("vcrypto: malformed public key")
	}
	return s.key(id), nil
}

func (s *Stub) GetAddressFromPublicKey(pub *ecdsa.PublicKey) (string, error) {
	id := s.KeyID(pub)
	if id < 0 {
		return "", errors.New("vcrypto: unknown key object")
	}
	return s.Addr(id), nil
}

func (s *Stub) VerifyAddressUsingPublicKey(address string, pub *ecdsa.PublicKey) (bool, uint8) {
	id := s.KeyID(pub)
	if id < 0 {
		return false, 0
	}
	return s.Addr(id) == address, 1
}

func (s *Stub) CheckAddressFormat(address string) (bool, uint8) { return true, 1 }

func (s *Stub) VerifyECDSA(k *ecdsa.PublicKey, signature, msg []byte) (bool, error) {
	id := s.KeyID(k)
	if id < 0 {
		return false, errors.New("vcrypto: unknown key object")
	}
	ok := s.Verify(id, signature, msg)
	s.Calls = append(s.Calls, Call{Key: id, Sig: signature, Msg: msg, Ok: ok})
	return ok, nil
}

// XVerify decides an aggregated signature over msg under the listed key ids (nil: always false).
func (s *Stub) VerifyXuperSignature(keys []*ecdsa.PublicKey, signature, msg []byte) (bool, error) {
	ids := make([]int, len(keys))
	for i, k := range keys {
		ids[i] = s.KeyID(k)
		if ids[i] < 0 {
			return false, errors.New("vcrypto: unknown key object")
		}
	}
	if s.XVerify == nil {
		return false, nil
	}
	return s.XVerify(ids, signature, msg), nil
}

// Ideal returns the stub used by the signature harnesses: key id k (0..n-1) has the public-key
// string "K<k>", the address addrs[k], and its signature over m is the byte string "S<k>"+m,
// which verifies under k for m and nothing else.
func Ideal(addrs []string) *Stub {
	st := &Stub{}
	st.KeyString = func(id int) string { return string([]byte{'K', byte('0' + id)}) }
	st.ParseKey = func(s string) (int, bool) {
		for id := range addrs {
			if s == st.KeyString(id) {
				return id, true
			}
		}
		return 0, false
	}
	st.Addr = func(id int) string { return addrs[id] }
	st.Sign = func(id int, msg []byte) []byte { return append([]byte{'S', byte('0' + id)}, msg...) }
	st.Verify = func(id int, sig, msg []byte) bool {
		return len(sig) == 2+len(msg) && sig[0] == 'S' && sig[1] == byte('0'+id) && string(sig[2:]) == string(msg)
	}
	return st
}
