// Package vkit builds real ledgers (and, in state.go, real state machines) on
// the in-memory kvdb for the stateful verification harnesses.
package vkit

import (
	"github.com/xuperchain/xupercore/bcs/ledger/xledger/config"
	"github.com/xuperchain/xupercore/bcs/ledger/xledger/ledger"
	txn "github.com/xuperchain/xupercore/bcs/ledger/xledger/tx"
	pb "github.com/xuperchain/xupercore/bcs/ledger/xledger/xldgpb"
	xconf "github.com/xuperchain/xupercore/kernel/common/xconfig"
	"github.com/xuperchain/xupercore/lib/timer"
	"github.com/xuperchain/xupercore/protos"
	"github.com/xuperchain/xupercore/zzverif/vrt"
	"github.com/xuperchain/xupercore/zzverif/vrt/memdb"
	"github.com/xuperchain/xupercore/zzverif/vrt/vlog"
)

// Genesis returns the genesis configuration used by all kit scenarios.
func Genesis(window string, quotaA, quotaB string) []byte {
	return []byte(`{"version":"1","predistribution":[{"address":"A","quota":"` + quotaA + `"},{"address":"B","quota":"` + quotaB + `"}],` +
		`"maxblocksize":"128","award":"7","decimals":"8","award_decay":{"height_gap":0,"ratio":1},` +
		`"gas_price":{"cpu_rate":1000,"mem_rate":1000000,"disk_rate":1,"xfee_rate":1},"new_account_resource_amount":1000,` +
		`"irreversibleslidewindow":"` + window + `",` +
		`"genesis_consensus":{"name":"single","config":{"miner":"M","period":3000}}}`)
}

type Env struct {
	Name   string
	F      *memdb.Faults
	Reg    map[string]*memdb.DB
	EnvCfg *xconf.EnvConf
	LCtx   *ledger.LedgerCtx
	L      *ledger.Ledger
	Root   *pb.InternalBlock
	RootTx *pb.Transaction
	Conf   []byte
}

func (e *Env) newLCtx() *ledger.LedgerCtx {
	lctx := &ledger.LedgerCtx{EnvCfg: e.EnvCfg, LedgerCfg: &config.XLedgerConf{KVEngineType: "verifmem", StorageType: "single"}, BCName: e.Name}
	lctx.XLog = vlog.Nop{}
	lctx.Timer = timer.NewXTimer()
	return lctx
}

// NewEnv creates a ledger with its genesis block confirmed.
func NewEnv(name string, conf []byte, f *memdb.Faults) *Env {
	vrt.InitPkg("github.com/xuperchain/xupercore/lib/storage/kvdb")
	if f == nil {
		f = memdb.NoFaults()
	}
	e := &Env{Name: name, F: f, Conf: conf}
	e.Reg = memdb.Use("/verifmem/"+name+"/", f)
	e.EnvCfg = &xconf.EnvConf{RootPath: "/verifmem/" + name, DataDir: "data", ChainDir: "blockchain"}
	e.LCtx = e.newLCtx()
	l, err := ledger.CreateLedger(e.LCtx, conf)
	if err != nil {
		panic("vkit: CreateLedger: " + err.Error())
	}
	e.L = l
	tx, err := txn.GenerateRootTx(conf)
	if err != nil {
		panic("vkit: GenerateRootTx: " + err.Error())
	}
	e.RootTx = tx
	root, err := l.FormatRootBlock([]*pb.Transaction{tx})
	if err != nil {
		panic("vkit: FormatRootBlock: " + err.Error())
	}
	if st := l.ConfirmBlock(root, true); !st.Succ {
		panic("vkit: confirm root failed")
	}
	e.Root = root
	return e
}

// Reopen opens a second ledger instance on the same storage (fresh caches).
func (e *Env) Reopen() *ledger.Ledger {
	l, err := ledger.OpenLedger(e.newLCtx())
	if err != nil {
		panic("vkit: OpenLedger: " + err.Error())
	}
	return l
}

// Coinbase returns an award transaction with a harness-chosen id.
func Coinbase(id string, to string, amount []byte) *pb.Transaction {
	return &pb.Transaction{Txid: []byte(id), Coinbase: true, Version: 1, Desc: []byte("award"),
		TxOutputs: []*protos.TxOutput{{ToAddr: []byte(to), Amount: amount}}}
}

// Block assembles a block on the given parent id; the id is the real
// MakeBlockID of the header (distinguished by the nonce).
func Block(preHash []byte, nonce int32, txs []*pb.Transaction) *pb.InternalBlock {
	b := &pb.InternalBlock{Version: 1, Nonce: nonce, PreHash: preHash, Proposer: []byte("M"), Timestamp: 1, Transactions: txs, TxCount: int32(len(txs)),
		FailedTxs: map[string]string{}}
	b.MerkleTree = ledger.MakeMerkleTree(txs)
	if len(b.MerkleTree) > 0 {
		b.MerkleRoot = b.MerkleTree[len(b.MerkleTree)-1]
	}
	id, err := ledger.MakeBlockID(b)
	if err != nil {
		panic("vkit: MakeBlockID: " + err.Error())
	}
	b.Blockid = id
	return b
}

// ObserveLedger reads the ledger's answers about the given block and tx ids
// through the public API, rendered as comparable strings.
func ObserveLedger(l *ledger.Ledger, blockIDs [][]byte, txIDs [][]byte) []string {
	m := l.GetMeta()
	out := []string{"tip=" + string(m.TipBlockid), "root=" + string(m.RootBlockid), "height=" + string([]byte{byte('0' + m.TrunkHeight)})}
	for _, id := range blockIDs {
		s := "blk[" + string(id) + "]:"
		if !l.ExistBlock(id) {
			out = append(out, s+"absent")
			// a header the storage does not hold must not be served from a cache either
			if _, err := l.QueryBlockHeader(id); err == nil {
				out = append(out, s+"header-served-without-block")
			}
			continue
		}
		b, err := l.QueryBlockHeader(id)
		if err != nil {
			out = append(out, s+"header-error")
			continue
		}
		s += "h=" + string([]byte{byte('0' + b.Height)})
		if b.InTrunk {
			s += ",trunk"
		}
		s += ",next=" + string(b.NextHash) + ",pre=" + string(b.PreHash)
		full, err := l.QueryBlock(id)
		if err != nil {
			s += ",body-error"
		} else {
			s += ",txs=" + string([]byte{byte('0' + len(full.Transactions))})
			if full.InTrunk != b.InTrunk || string(full.NextHash) != string(b.NextHash) {
				s += ",body-disagrees-with-header"
			}
		}
		out = append(out, s)
	}
	for h := int64(0); h <= m.TrunkHeight+1; h++ {
		b, err := l.QueryBlockByHeight(h)
		if err != nil {
			out = append(out, "byheight["+string([]byte{byte('0' + h)})+"]=none")
		} else {
			out = append(out, "byheight["+string([]byte{byte('0' + h)})+"]="+string(b.Blockid))
		}
	}
	for _, id := range txIDs {
		s := "tx[" + string(id) + "]:"
		t, err := l.QueryTransaction(id)
		if err != nil {
			out = append(out, s+"absent")
			continue
		}
		s += "blk=" + string(t.Blockid)
		if l.IsTxInTrunk(id) {
			s += ",trunk"
		}
		out = append(out, s)
	}
	return out
}

// SameStrings compares two observation lists.
func SameStrings(a, b []string, assert func(bool, string), label string) {
	assert(len(a) == len(b), label)
	if len(a) == len(b) {
		for i := range a {
			assert(a[i] == b[i], label)
		}
	}
}
