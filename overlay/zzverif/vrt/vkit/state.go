package vkit

import (
	"bytes"
	"math/big"
	"sort"

	"github.com/xuperchain/xupercore/bcs/ledger/xledger/config"
	"github.com/xuperchain/xupercore/bcs/ledger/xledger/state"
	sctx "github.com/xuperchain/xupercore/bcs/ledger/xledger/state/context"
	pb "github.com/xuperchain/xupercore/bcs/ledger/xledger/xldgpb"
	aclBase "github.com/xuperchain/xupercore/kernel/permission/acl/base"
	cryptoBase "github.com/xuperchain/xupercore/lib/crypto/client/base"
	"github.com/xuperchain/xupercore/lib/timer"
	"github.com/xuperchain/xupercore/protos"
	"github.com/xuperchain/xupercore/zzverif/vrt/vcrypto"
	"github.com/xuperchain/xupercore/zzverif/vrt/vlog"
)

// NewState opens a state machine named `name` (its own state database) over
// the environment's ledger. Opening the same name again re-opens the same data.
func (e *Env) NewState(name string) *state.State {
	c := &sctx.StateCtx{EnvCfg: e.EnvCfg, LedgerCfg: &config.XLedgerConf{KVEngineType: "verifmem", StorageType: "single", Utxo: config.UtxoConfig{CacheSize: 1000, TmpLockSeconds: 60}}, BCName: name,
		Ledger: e.L, Crypt: &vcrypto.Stub{}}
	c.XLog = vlog.Nop{}
	c.Timer = timer.NewXTimer()
	s, err := state.NewState(c)
	if err != nil {
		panic("vkit: NewState: " + err.Error())
	}
	return s
}

// NewStateWith is NewState with a harness-supplied crypto client and ACL manager.
func (e *Env) NewStateWith(name string, crypt cryptoBase.CryptoClient, aclMgr aclBase.AclManager) *state.State {
	c := &sctx.StateCtx{EnvCfg: e.EnvCfg, LedgerCfg: &config.XLedgerConf{KVEngineType: "verifmem", StorageType: "single", Utxo: config.UtxoConfig{CacheSize: 1000, TmpLockSeconds: 60}}, BCName: name,
		Ledger: e.L, Crypt: crypt}
	c.XLog = vlog.Nop{}
	c.Timer = timer.NewXTimer()
	c.AclMgr = aclMgr
	s, err := state.NewState(c)
	if err != nil {
		panic("vkit: NewState: " + err.Error())
	}
	return s
}

// NewStateCtx is NewStateWith returning the state context too (the contract manager is
// installed in it after the state exists, as the engine does).
func (e *Env) NewStateCtx(name string, crypt cryptoBase.CryptoClient, aclMgr aclBase.AclManager) (*state.State, *sctx.StateCtx) {
	c := &sctx.StateCtx{EnvCfg: e.EnvCfg, LedgerCfg: &config.XLedgerConf{KVEngineType: "verifmem", StorageType: "single", Utxo: config.UtxoConfig{CacheSize: 1000, TmpLockSeconds: 60}}, BCName: name,
		Ledger: e.L, Crypt: crypt}
	c.XLog = vlog.Nop{}
	c.Timer = timer.NewXTimer()
	c.AclMgr = aclMgr
	s, err := state.NewState(c)
	if err != nil {
		panic("vkit: NewState: " + err.Error())
	}
	return s, c
}

// StateDBPath is the registry key of a state database.
func (e *Env) StateDBPath(name string) string {
	return "/verifmem/" + e.Name + "/data/blockchain/" + name + "/utxoVM"
}

// Out builds a transfer output.
func Out(to string, amount *big.Int, frozen int64) *protos.TxOutput {
	return &protos.TxOutput{ToAddr: []byte(to), Amount: amount.Bytes(), FrozenHeight: frozen}
}

// In cites output `offset` of transaction txid owned by `from` with the given amount.
func In(txid []byte, offset int32, from string, amount *big.Int) *protos.TxInput {
	return &protos.TxInput{RefTxid: txid, RefOffset: offset, FromAddr: []byte(from), Amount: amount.Bytes()}
}

// Tx builds a version-0 transaction (the version Play accepts without
// signature checks) with a harness-chosen id.
func Tx(id string, ins []*protos.TxInput, outs []*protos.TxOutput) *pb.Transaction {
	return &pb.Transaction{Txid: []byte(id), Version: 0, Desc: []byte(id), TxInputs: ins, TxOutputs: outs, Initiator: "A"}
}

// WithKey adds a key read (citing version refTxid/refOffset, nil = never
// written) and, if value != nil, a write of that key.
func WithKey(tx *pb.Transaction, bucket string, key string, refTxid []byte, refOffset int32, value []byte) *pb.Transaction {
	tx.TxInputsExt = append(tx.TxInputsExt, &protos.TxInputExt{Bucket: bucket, Key: []byte(key), RefTxid: refTxid, RefOffset: refOffset})
	if value != nil {
		tx.TxOutputsExt = append(tx.TxOutputsExt, &protos.TxOutputExt{Bucket: bucket, Key: []byte(key), Value: value})
	}
	return tx
}

// Obs is the observable state of a state machine.
type Obs struct {
	Balances map[string]*big.Int
	Total    *big.Int
	Tip      []byte
	Irrev    int64
	Window   int64
	Keys     map[string][]byte  // value, nil if absent / deleted
	KeyVers  map[string]string  // "txid/offset"
	Utxo     [][2][]byte        // raw U table
	Pool     []string           // ids of pending transactions, sorted
	HasTx    map[string]bool    // HasTx for the ids of interest
	Sel      map[string]*SelObs // with ObserveSelect: what SelectUtxos hands out for the whole balance
}

type SelObs struct {
	Refused bool
	Total   *big.Int
	Items   []SelItem // sorted by Ref
}

type SelItem struct {
	Ref    string // txid/offset
	Amount *big.Int
	Frozen int64
}

// ObserveSelect adds, per address, the outcome of SelectUtxos(address, its balance, no locking) to
// the observation: the outputs the node would hand to a wallet (served from the output cache first).
var ObserveSelect bool

var TxsOfInterest = []string{"t1", "t2", "bad"}

var Addrs = []string{"A", "B", "C", "M"}
var KeysOfInterest = []string{"k1", "k2"}

// Observe reads every observable through the public API.
func Observe(s *state.State) *Obs {
	o := &Obs{Balances: map[string]*big.Int{}, Keys: map[string][]byte{}, KeyVers: map[string]string{}, HasTx: map[string]bool{}}
	if txs, err := s.GetUnconfirmedTx(false); err == nil {
		for _, t := range txs {
			o.Pool = append(o.Pool, string(t.Txid))
		}
		sort.Strings(o.Pool)
	} else {
		o.Pool = []string{"error"}
	}
	for _, id := range TxsOfInterest {
		o.HasTx[id], _ = s.HasTx([]byte(id))
	}
	for _, a := range Addrs {
		b, err := s.GetBalance(a)
		if err != nil {
			b = big.NewInt(-1)
		}
		o.Balances[a] = b
	}
	if ObserveSelect {
		o.Sel = map[string]*SelObs{}
		for _, a := range Addrs {
			so := &SelObs{Total: big.NewInt(0)}
			o.Sel[a] = so
			if o.Balances[a].Sign() <= 0 {
				continue
			}
			ins, _, total, err := s.SelectUtxos(a, new(big.Int).Set(o.Balances[a]), false, false)
			if err != nil {
				so.Refused = true
				continue
			}
			so.Total = total
			for _, in := range ins {
				so.Items = append(so.Items, SelItem{string(in.RefTxid) + "/" + string([]byte{byte('0' + in.RefOffset)}), new(big.Int).SetBytes(in.Amount), in.FrozenHeight})
			}
			sort.Slice(so.Items, func(i, j int) bool { return so.Items[i].Ref < so.Items[j].Ref })
		}
	}
	o.Total = s.GetTotal()
	m := s.GetMeta()
	o.Tip = m.LatestBlockid
	o.Irrev = m.IrreversibleBlockHeight
	o.Window = m.IrreversibleSlideWindow
	rd := s.CreateXMReader()
	for _, k := range KeysOfInterest {
		v, err := rd.Get("bk", []byte(k))
		if err != nil || v == nil || v.PureData == nil {
			o.Keys[k] = nil
			o.KeyVers[k] = "error"
			continue
		}
		val := v.PureData.Value
		if len(val) == 1 && val[0] == 0 {
			val = nil // delete marker
		}
		o.Keys[k] = val
		o.KeyVers[k] = string(v.RefTxid) + "/" + string([]byte{byte('0' + v.RefOffset)})
	}
	it := s.GetLDB().NewIteratorWithPrefix([]byte(pb.UTXOTablePrefix))
	for it.Next() {
		o.Utxo = append(o.Utxo, [2][]byte{append([]byte{}, it.Key()...), append([]byte{}, it.Value()...)})
	}
	it.Release()
	return o
}

// Same compares two observations; every difference is reported through fail(label).
func Same(a, b *Obs, assert func(cond bool, label string)) {
	for _, ad := range Addrs {
		assert(a.Balances[ad].Cmp(b.Balances[ad]) == 0, "same-balance")
	}
	assert(a.Total.Cmp(b.Total) == 0, "same-total-supply")
	assert(bytes.Equal(a.Tip, b.Tip), "same-tip")
	assert(a.Irrev == b.Irrev && a.Window == b.Window, "same-irreversible-height-and-window")
	for _, k := range KeysOfInterest {
		assert(bytes.Equal(a.Keys[k], b.Keys[k]) && (a.Keys[k] == nil) == (b.Keys[k] == nil), "same-key-value")
		assert(a.KeyVers[k] == b.KeyVers[k], "same-key-version")
	}
	assert(len(a.Pool) == len(b.Pool), "same-number-of-pending-transactions")
	if len(a.Pool) == len(b.Pool) {
		for i := range a.Pool {
			assert(a.Pool[i] == b.Pool[i], "same-pending-transaction")
		}
	}
	for _, id := range TxsOfInterest {
		assert(a.HasTx[id] == b.HasTx[id], "same-pool-membership")
	}
	if a.Sel != nil && b.Sel != nil {
		for _, ad := range Addrs {
			x, y := a.Sel[ad], b.Sel[ad]
			ok := x.Refused == y.Refused && x.Total.Cmp(y.Total) == 0 && len(x.Items) == len(y.Items)
			if ok {
				for i := range x.Items {
					ok = ok && x.Items[i].Ref == y.Items[i].Ref && x.Items[i].Amount.Cmp(y.Items[i].Amount) == 0 && x.Items[i].Frozen == y.Items[i].Frozen
				}
			}
			assert(ok, "same-selectable-outputs")
		}
	}
	assert(len(a.Utxo) == len(b.Utxo), "same-number-of-unspent-outputs")
	if len(a.Utxo) == len(b.Utxo) {
		for i := range a.Utxo {
			assert(bytes.Equal(a.Utxo[i][0], b.Utxo[i][0]) && bytes.Equal(a.Utxo[i][1], b.Utxo[i][1]), "same-unspent-output")
		}
	}
}
