// Package vlog is a no-op implementation of logs.Logger (arguments are still
// evaluated by the caller; nothing is formatted or written).
package vlog

type Nop struct{}

func (Nop) GetLogId() string                          { return "verif" }
func (Nop) SetCommField(key string, value interface{}) {}
func (Nop) SetInfoField(key string, value interface{}) {}
func (Nop) Error(msg string, ctx ...interface{})       {}
func (Nop) Warn(msg string, ctx ...interface{})        {}
func (Nop) Info(msg string, ctx ...interface{})        {}
func (Nop) Trace(msg string, ctx ...interface{})       {}
func (Nop) Debug(msg string, ctx ...interface{})       {}
