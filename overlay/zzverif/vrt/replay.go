package vrt

import (
	"fmt"
	"os"
	"testing"
)

// RunReplay runs the harness selected by $VERIF_HARNESS with the values of
// $VERIF_REPLAY and fails the test if an assertion failed or the code under
// test panicked.
func RunReplay(t *testing.T, hs map[string]func()) {
	name := os.Getenv("VERIF_HARNESS")
	if name == "" {
		t.Skip("VERIF_HARNESS not set")
	}
	h, ok := hs[name]
	if !ok {
		t.Skip("harness not in this package: " + name)
	}
	Reset()
	func() {
		defer func() {
			if r := recover(); r != nil {
				if _, ok := r.(Infeasible); ok {
					fmt.Println("VERIF-INFEASIBLE")
					return
				}
				fmt.Printf("VERIF-PANIC %v\n", r)
				Failures = append(Failures, "no-panic")
			}
		}()
		h()
	}()
	if len(Failures) > 0 {
		t.Fatalf("VERIF-REPLAY-FAILED %v", Failures)
	}
	fmt.Println("VERIF-REPLAY-PASSED")
}
