// Package vrt is the harness runtime of the verification machinery in /verif.
// Under the symbolic executor (gse) every function below is intercepted; the
// bodies here are the native semantics used for replay and differential runs:
// nondeterministic values are read, in call order, from the JSON file named by
// $VERIF_REPLAY.
package vrt

import (
	"encoding/json"
	"fmt"
	"math/big"
	"os"
	"runtime"
	"strconv"
	"sync"
	"time"
)

type replayVar struct {
	Name string `json:"name"`
	Kind string `json:"kind"`
	Val  string `json:"val"`
}

type replayFile struct {
	Harness string      `json:"harness"`
	Label   string      `json:"label"`
	Vars    []replayVar `json:"vars"`
	Choices []int       `json:"choices"`
}

var (
	mu       sync.Mutex
	loaded   bool
	rf       replayFile
	vi, ci   int
	Failures []string
	Obs      []string
)

// Infeasible is panicked by Assume(false) in native runs.
type Infeasible struct{}

func loadReplay() {
	if loaded {
		return
	}
	loaded = true
	p := os.Getenv("VERIF_REPLAY")
	if p == "" {
		return
	}
	b, err := os.ReadFile(p)
	if err != nil {
		panic("vrt: cannot read replay file: " + err.Error())
	}
	if err := json.Unmarshal(b, &rf); err != nil {
		panic("vrt: bad replay file: " + err.Error())
	}
}

// Reset rewinds the replay stream (used by the replay test driver).
func Reset() {
	mu.Lock()
	defer mu.Unlock()
	loaded = false
	vi, ci = 0, 0
	Failures = nil
	Obs = nil
}

func nextVar(name string) *big.Int {
	mu.Lock()
	defer mu.Unlock()
	loadReplay()
	if vi >= len(rf.Vars) {
		// beyond the recorded vector: default value
		return nil
	}
	v := rf.Vars[vi]
	vi++
	if v.Name != name {
		panic(fmt.Sprintf("vrt: replay mismatch: harness asks for %q, file has %q at %d", name, v.Name, vi-1))
	}
	b, ok := new(big.Int).SetString(v.Val, 10)
	if !ok {
		panic("vrt: bad value " + v.Val)
	}
	return b
}

// Int returns an arbitrary integer in [lo, hi].
func Int(name string, lo, hi int64) int64 {
	if lo == hi {
		return lo // the executor creates no variable for a one-point range
	}
	v := nextVar(name)
	if v == nil {
		return lo
	}
	return v.Int64()
}

// Uint64 returns an arbitrary 64-bit unsigned integer.
func Uint64(name string) uint64 {
	v := nextVar(name)
	if v == nil {
		return 0
	}
	return v.Uint64()
}

// Bool returns an arbitrary boolean.
func Bool(name string) bool {
	v := nextVar(name)
	return v != nil && v.Sign() != 0
}

// Byte returns an arbitrary byte.
func Byte(name string) byte {
	v := nextVar(name)
	if v == nil {
		return 0
	}
	return byte(v.Int64())
}

// Bytes returns n arbitrary bytes.
func Bytes(name string, n int) []byte {
	b := make([]byte, n)
	for i := range b {
		b[i] = Byte(name + "." + strconv.Itoa(i))
	}
	return b
}

// String returns a string of n arbitrary bytes.
func String(name string, n int) string { return string(Bytes(name, n)) }

// BigNat returns an arbitrary natural number below 256^maxBytes.
func BigNat(name string, maxBytes int) *big.Int {
	v := nextVar(name)
	if v == nil {
		return new(big.Int)
	}
	return v
}

// Choice returns an arbitrary value in [0,n); the executor enumerates all of
// them structurally (no solver variable).
func Choice(name string, n int) int {
	mu.Lock()
	defer mu.Unlock()
	loadReplay()
	if n <= 1 {
		return 0
	}
	if ci >= len(rf.Choices) {
		return 0
	}
	c := rf.Choices[ci]
	ci++
	return c
}

// Assume restricts the explored inputs to those satisfying c.
func Assume(c bool) {
	if !c {
		panic(Infeasible{})
	}
}

// Assert states the property.
func Assert(c bool, label string) {
	if !c {
		mu.Lock()
		Failures = append(Failures, label)
		mu.Unlock()
		fmt.Printf("VERIF-ASSERT-FAIL %s\n", label)
	}
}

// Cover is a reachability witness: some explored path must make c true.
func Cover(label string, c bool) {}

// PermuteMaps brackets the section in which the executor explores the iteration orders of small
// Go maps (flag -permute-maps N); outside it maps iterate in insertion order. No native effect.
func PermuteMaps(on bool) {}

// Native reports whether the harness runs as ordinary compiled code (true) or under the executor (false).
func Native() bool { return true }

// CryptoClient, when set, is what the executor hands out wherever the code under test
// instantiates a crypto plug-in (crypto/client.CreateCryptoClient*). Natively it is ignored:
// harnesses that use it are replayed by the executor.
var CryptoClient interface{}

// Known declares the predicate of a known-finding class over the inputs.
func Known(class string, c bool) {}

// Observe logs a value for differential validation of the executor.
func Observe(label string, v interface{}) {
	s := fmt.Sprintf("%s=%v", label, v)
	mu.Lock()
	Obs = append(Obs, s)
	mu.Unlock()
	fmt.Printf("VERIF-OBS %s\n", s)
}

// Quiesce waits until all goroutines started by the code under test are done
// or blocked. Natively the harness has to synchronise by other means; this is
// a scheduling hint for the executor only.
func Quiesce() {}

// Symbolic reports whether the harness runs under the symbolic executor.
func Symbolic() bool { return false }

// InitPkg forces initialisation of a package under the executor, which
// initialises packages lazily (natively all imports are initialised already).
func InitPkg(path string) {}

// SetClock / AdvanceClock drive the executor's stub clock. Natively SetClock has no
// effect and AdvanceClock lets that much real time pass.
func SetClock(ns int64)     {}
func AdvanceClock(ns int64) { time.Sleep(time.Duration(ns)) }

// Dyadic returns an arbitrary float64 of the form n / 2^fracBits with
// |value| <= maxAbs. Sums of a few such values are exact in binary64, so the
// executor's real arithmetic and IEEE arithmetic coincide.
func Dyadic(name string, fracBits int, maxAbs int64) float64 {
	v := nextVar(name)
	if v == nil {
		return 0
	}
	return float64(v.Int64()) / float64(int64(1)<<uint(fracBits))
}

// Yield is a scheduling point inside harness code (the executor may switch
// goroutines here; natively runtime.Gosched).
func Yield() { runtime.Gosched() }

// ExploreSchedules brackets the concurrent section of a harness: while on
// (and the executor runs with -explore-sched) every interleaving of the
// synchronisation operations within the preemption bound is explored;
// elsewhere goroutines run deterministically. No native effect.
func ExploreSchedules(on bool) {}
