// Package vkctx is a stub of contract.KContext over a plain Go map store with
// the sandbox's not-found semantics; Call dispatches to harness-registered
// kernel methods with Caller set to the calling contract.
package vkctx

import (
	"errors"
	"math/big"

	"github.com/xuperchain/xupercore/kernel/contract"
	"github.com/xuperchain/xupercore/protos"
)

var ErrNotFound = errors.New("Key not found")

type Method func(ctx contract.KContext) (*contract.Response, error)

// World is the state shared by all contexts of one scenario.
type World struct {
	Store   map[string][]byte
	Methods map[string]Method // "contract.method"
}

func NewWorld() *World {
	return &World{Store: map[string][]byte{}, Methods: map[string]Method{}}
}

type Ctx struct {
	W         *World
	ArgsMap   map[string][]byte
	Init      string
	CallerStr string
	Self      string // name of the contract this context executes (becomes Caller of nested calls)
	Auth      []string
	Limit     contract.Limits
	Used      contract.Limits
	// writes of this call, applied to the world only if the call succeeds
	pending map[string][]byte
	deleted map[string]bool
}

func (w *World) NewCtx(initiator, caller string, args map[string][]byte) *Ctx {
	return &Ctx{W: w, ArgsMap: args, Init: initiator, CallerStr: caller, Limit: contract.Limits{XFee: 1 << 40},
		pending: map[string][]byte{}, deleted: map[string]bool{}}
}

// Commit applies the call's writes (the real sandbox's write set is committed
// only when the transaction succeeds).
func (c *Ctx) Commit() {
	for k := range c.deleted {
		delete(c.W.Store, k)
	}
	for k, v := range c.pending {
		c.W.Store[k] = v
	}
}

func (c *Ctx) Args() map[string][]byte { return c.ArgsMap }
func (c *Ctx) Initiator() string       { return c.Init }
func (c *Ctx) Caller() string          { return c.CallerStr }
func (c *Ctx) AuthRequire() []string   { return c.Auth }

func (c *Ctx) Get(bucket string, key []byte) ([]byte, error) {
	k := bucket + "/" + string(key)
	if c.deleted[k] {
		return nil, ErrNotFound
	}
	if v, ok := c.pending[k]; ok {
		return v, nil
	}
	if v, ok := c.W.Store[k]; ok {
		return v, nil
	}
	return nil, ErrNotFound
}

func (c *Ctx) Select(bucket string, startKey []byte, endKey []byte) (contract.Iterator, error) {
	return nil, errors.New("vkctx: Select not modelled")
}

func (c *Ctx) Put(bucket string, key, value []byte) error {
	k := bucket + "/" + string(key)
	delete(c.deleted, k)
	v := make([]byte, len(value))
	copy(v, value)
	c.pending[k] = v
	return nil
}

func (c *Ctx) Del(bucket string, key []byte) error {
	k := bucket + "/" + string(key)
	delete(c.pending, k)
	c.deleted[k] = true
	return nil
}

func (c *Ctx) Transfer(from string, to string, amount *big.Int) error { return nil }
func (c *Ctx) AddEvent(events ...*protos.ContractEvent)               {}
func (c *Ctx) Flush() error                                           { return nil }
func (c *Ctx) RWSet() *contract.RWSet                                 { return nil }
func (c *Ctx) UTXORWSet() *contract.UTXORWSet                         { return nil }

func (c *Ctx) AddResourceUsed(delta contract.Limits) {
	c.Used.XFee += delta.XFee
}
func (c *Ctx) ResourceLimit() contract.Limits { return c.Limit }

// Call runs another kernel method in the same transaction: same pending
// write set, Caller = the contract that issues the call.
func (c *Ctx) Call(module, contractName, method string, args map[string][]byte) (*contract.Response, error) {
	m, ok := c.W.Methods[contractName+"."+method]
	if !ok {
		return nil, errors.New("vkctx: no such method " + contractName + "." + method)
	}
	sub := &Ctx{W: c.W, ArgsMap: args, Init: c.Init, CallerStr: c.Self, Auth: c.Auth, Limit: c.Limit, pending: c.pending, deleted: c.deleted}
	return m(sub)
}
