#!/usr/bin/env python3
"""Regenerates MANIFEST.json from checks.json + manifest_meta.json."""
import json, os
ROOT = os.path.dirname(os.path.abspath(__file__))
checks = json.load(open(os.path.join(ROOT, "checks.json")))
meta = json.load(open(os.path.join(ROOT, "manifest_meta.json")))
props = [json.loads(l) for l in open(os.path.join(ROOT, "properties.jsonl"))]
man = {
    "version": 1,
    "setup_cmd": "cd /verif/engine && GOFLAGS=-mod=mod GOPROXY=off GOSUMDB=off GOTOOLCHAIN=local go build -o /verif/bin/gse ./gse",
    "hooks": meta["hooks"],
    "engines": [{"name": "gse", "path": "/verif/engine/gse", "serves_properties": sorted(checks.keys()),
                 "kind_free_text": "path-forking symbolic executor for go/ssa (x/tools v0.29.0) with z3 back end; harnesses injected by build overlay, counterexamples replayed natively with go test -overlay"}],
    "checks": [],
    "notes": meta.get("notes", ""),
    "not_applicable": [],
}
for p in props:
    pid = p["id"]
    if pid in checks:
        c = checks[pid]
        m = meta["checks"].get(pid, {})
        entry = {
            "property_id": pid,
            "quick_cmd": f"./check {pid} --tier quick",
            "evidence_file": f"/verif/evidence/{pid}.json",
            "replay_cmd_template": f"./check {pid} --replay {{path}}",
            "engine": "gse",
            "level_claimed": {"category": "model_checking", "text": m.get("level_text", ""), "design_ref": m.get("design_ref", "DESIGN.md §5 " + pid)},
            "level_note": m.get("level_note", ""),
            "technique": m.get("technique", "bounded symbolic execution of the real go/ssa code, SMT (z3) decides every path's assertions; native replay of counterexamples"),
        }
        if "thorough" in c["tiers"]:
            entry["thorough_cmd"] = f"./check {pid} --tier thorough"
        man["checks"].append(entry)
    else:
        man["not_applicable"].append({"property_id": pid, "reason": meta["not_applicable"].get(pid, "check not built yet in this session; no claim is made")})
json.dump(man, open(os.path.join(ROOT, "MANIFEST.json"), "w"), indent=1)
print("MANIFEST.json:", len(man["checks"]), "checks,", len(man["not_applicable"]), "not applicable")
