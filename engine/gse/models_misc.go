package main

import (
	"go/token"
	"go/types"
	"math"
	"path/filepath"
	"strconv"

	"golang.org/x/tools/go/ssa"
)

func byteSeq(v value) []value {
	switch x := v.(type) {
	case []value:
		return x
	case string, *SymStr:
		return strBytes(x)
	}
	panic(engineError{"byteSeq"})
}

func registerBytealg(e *engine) {
	eq := func(fr *frame, fn *ssa.Function, a []value) value {
		x, y := byteSeq(a[0]), byteSeq(a[1])
		return fr.m.bytesEq(x, y)
	}
	e.reg("internal/bytealg.Equal", eq)
	e.reg("bytes.Equal", eq)
	cmp := func(fr *frame, fn *ssa.Function, a []value) value {
		m := fr.m
		x, y := byteSeq(a[0]), byteSeq(a[1])
		lt := m.bytesCmpLess(x, y, false)
		if m.truth(lt) {
			return -1
		}
		if m.truth(m.bytesEq(x, y)) {
			return 0
		}
		return 1
	}
	e.reg("internal/bytealg.Compare", cmp)
	e.reg("internal/bytealg.CompareString", cmp)
	e.reg("bytes.Compare", cmp)
	e.reg("strings.Compare", cmp)
	indexByte := func(fr *frame, fn *ssa.Function, a []value) value {
		m := fr.m
		x := byteSeq(a[0])
		c := m.termOf(a[1])
		for i, b := range x {
			if m.truth(m.termVal(m.ts.Eq(m.termOf(b), c))) {
				return i
			}
		}
		return -1
	}
	e.reg("internal/bytealg.IndexByte", indexByte)
	e.reg("internal/bytealg.IndexByteString", indexByte)
	lastIndexByte := func(fr *frame, fn *ssa.Function, a []value) value {
		m := fr.m
		x := byteSeq(a[0])
		c := m.termOf(a[1])
		for i := len(x) - 1; i >= 0; i-- {
			if m.truth(m.termVal(m.ts.Eq(m.termOf(x[i]), c))) {
				return i
			}
		}
		return -1
	}
	e.reg("internal/bytealg.LastIndexByte", lastIndexByte)
	e.reg("internal/bytealg.LastIndexByteString", lastIndexByte)
	count := func(fr *frame, fn *ssa.Function, a []value) value {
		m := fr.m
		x := byteSeq(a[0])
		c := m.termOf(a[1])
		n := 0
		for _, b := range x {
			if m.truth(m.termVal(m.ts.Eq(m.termOf(b), c))) {
				n++
			}
		}
		return n
	}
	e.reg("internal/bytealg.Count", count)
	e.reg("internal/bytealg.CountString", count)
	index := func(fr *frame, fn *ssa.Function, a []value) value {
		m := fr.m
		x, y := byteSeq(a[0]), byteSeq(a[1])
		for i := 0; i+len(y) <= len(x); i++ {
			if m.truth(m.bytesEq(x[i:i+len(y)], y)) {
				return i
			}
		}
		return -1
	}
	e.reg("internal/bytealg.Index", index)
	e.reg("internal/bytealg.IndexString", index)
	e.reg("internal/bytealg.MakeNoZero", func(fr *frame, fn *ssa.Function, a []value) value {
		n := int(fr.m.concInt(a[0], "MakeNoZero"))
		out := make([]value, n)
		for i := range out {
			out[i] = uint8(0)
		}
		return out
	})
	e.reg("internal/bytealg.Cutover", func(fr *frame, fn *ssa.Function, a []value) value { return 1 << 30 })
	e.reg("internal/bytealg.HashStr[string]", func(fr *frame, fn *ssa.Function, a []value) value {
		fr.m.unsupported("bytealg.HashStr")
		return nil
	})
	e.reg("internal/bytealg.IndexRabinKarp[string]", func(fr *frame, fn *ssa.Function, a []value) value {
		return index(fr, fn, a)
	})
	e.reg("internal/bytealg.IndexRabinKarp[[]byte]", func(fr *frame, fn *ssa.Function, a []value) value {
		return index(fr, fn, a)
	})
	// frequently used whole-string helpers with precise symbolic treatment
	e.reg("strings.HasPrefix", func(fr *frame, fn *ssa.Function, a []value) value {
		x, y := byteSeq(a[0]), byteSeq(a[1])
		if len(x) < len(y) {
			return false
		}
		return fr.m.bytesEq(x[:len(y)], y)
	})
	e.reg("bytes.HasPrefix", e.models["strings.HasPrefix"])
	e.reg("strings.HasSuffix", func(fr *frame, fn *ssa.Function, a []value) value {
		x, y := byteSeq(a[0]), byteSeq(a[1])
		if len(x) < len(y) {
			return false
		}
		return fr.m.bytesEq(x[len(x)-len(y):], y)
	})
	e.reg("bytes.HasSuffix", e.models["strings.HasSuffix"])
	e.reg("strings.EqualFold", func(fr *frame, fn *ssa.Function, a []value) value {
		x, ok1 := a[0].(string)
		y, ok2 := a[1].(string)
		if !ok1 || !ok2 {
			fr.m.unsupported("symbolic EqualFold")
		}
		return equalFold(x, y)
	})
}

func equalFold(a, b string) bool {
	if len(a) != len(b) {
		return false
	}
	for i := 0; i < len(a); i++ {
		x, y := a[i], b[i]
		if 'A' <= x && x <= 'Z' {
			x += 'a' - 'A'
		}
		if 'A' <= y && y <= 'Z' {
			y += 'a' - 'A'
		}
		if x != y {
			return false
		}
	}
	return true
}

func registerMisc(e *engine) {
	// errors.Is / As / Unwrap without reflection
	e.reg("errors.Is", func(fr *frame, fn *ssa.Function, a []value) value {
		m := fr.m
		err, target := a[0].(iface), a[1].(iface)
		for depth := 0; depth < 16; depth++ {
			if err.t == nil {
				return target.t == nil
			}
			if sameType(err.t, target.t) && types.Comparable(err.t) {
				if m.truth(equals(m, err.t, err.v, target.v)) {
					return true
				}
			}
			uw := m.eng.prog.LookupMethod(err.t, nil, "Unwrap")
			if uw == nil || uw.Signature.Results().Len() != 1 {
				return false
			}
			r := call(m, fr, 0, uw, []value{err.v})
			next, ok := r.(iface)
			if !ok {
				return false
			}
			err = next
		}
		return false
	})
	e.reg("errors.Unwrap", func(fr *frame, fn *ssa.Function, a []value) value {
		m := fr.m
		err := a[0].(iface)
		if err.t == nil {
			return iface{}
		}
		uw := m.eng.prog.LookupMethod(err.t, nil, "Unwrap")
		if uw == nil || uw.Signature.Results().Len() != 1 {
			return iface{}
		}
		r := call(m, fr, 0, uw, []value{err.v})
		if it, ok := r.(iface); ok {
			return it
		}
		return iface{}
	})
	// sort.Slice & friends: insertion sort driven by the interpreted less
	sortSlice := func(fr *frame, fn *ssa.Function, a []value) value {
		m := fr.m
		s, ok := a[0].(iface).v.([]value)
		if !ok {
			m.unsupported("sort.Slice on non-slice")
		}
		less := a[1]
		// stable insertion sort; less works on indices so we swap in place
		for i := 1; i < len(s); i++ {
			for j := i; j > 0; j-- {
				if !m.truth(call(m, fr, 0, less, []value{j, j - 1})) {
					break
				}
				s[j], s[j-1] = s[j-1], s[j]
			}
		}
		return nil
	}
	e.reg("sort.Slice", sortSlice)
	e.reg("sort.SliceStable", sortSlice)
	e.reg("sort.SliceIsSorted", func(fr *frame, fn *ssa.Function, a []value) value {
		m := fr.m
		s := a[0].(iface).v.([]value)
		for i := len(s) - 1; i > 0; i-- {
			if m.truth(call(m, fr, 0, a[1], []value{i, i - 1})) {
				return false
			}
		}
		return true
	})
	// math
	f1 := func(name string, f func(float64) float64) {
		e.reg("math."+name, func(fr *frame, fn *ssa.Function, a []value) value {
			x, ok := a[0].(float64)
			if !ok {
				fr.m.unsupported("symbolic math." + name)
			}
			return f(x)
		})
	}
	f1("Log2", math.Log2)
	f1("Log", math.Log)
	f1("Log10", math.Log10)
	f1("Round", math.Round)
	f1("Floor", math.Floor)
	f1("Ceil", math.Ceil)
	f1("Sqrt", math.Sqrt)
	f1("Abs", math.Abs)
	f1("Exp", math.Exp)
	f1("Trunc", math.Trunc)
	e.reg("math.Pow", func(fr *frame, fn *ssa.Function, a []value) value {
		return math.Pow(a[0].(float64), a[1].(float64))
	})
	e.reg("math.Float64bits", func(fr *frame, fn *ssa.Function, a []value) value { return math.Float64bits(a[0].(float64)) })
	e.reg("math.Float64frombits", func(fr *frame, fn *ssa.Function, a []value) value {
		return math.Float64frombits(asUint64(a[0]))
	})
	e.reg("math.Float32bits", func(fr *frame, fn *ssa.Function, a []value) value { return math.Float32bits(a[0].(float32)) })
	e.reg("math.IsNaN", func(fr *frame, fn *ssa.Function, a []value) value { return math.IsNaN(a[0].(float64)) })
	e.reg("math.IsInf", func(fr *frame, fn *ssa.Function, a []value) value {
		return math.IsInf(a[0].(float64), int(asInt64(a[1])))
	})
	e.reg("math.Inf", func(fr *frame, fn *ssa.Function, a []value) value { return math.Inf(int(asInt64(a[0]))) })
	e.reg("math.NaN", func(fr *frame, fn *ssa.Function, a []value) value { return math.NaN() })
	e.reg("math.Max", func(fr *frame, fn *ssa.Function, a []value) value { return math.Max(a[0].(float64), a[1].(float64)) })
	e.reg("math.Min", func(fr *frame, fn *ssa.Function, a []value) value { return math.Min(a[0].(float64), a[1].(float64)) })
	e.reg("strconv.FormatFloat", func(fr *frame, fn *ssa.Function, a []value) value {
		fr.m.unsupported("strconv.FormatFloat")
		return nil
	})
	e.reg("path/filepath.Join", func(fr *frame, fn *ssa.Function, a []value) value {
		var parts []string
		for _, x := range a[0].([]value) {
			s, ok := x.(string)
			if !ok {
				fr.m.unsupported("symbolic filepath.Join")
			}
			parts = append(parts, s)
		}
		return filepath.Join(parts...)
	})
	e.reg("path/filepath.IsAbs", func(fr *frame, fn *ssa.Function, a []value) value { return filepath.IsAbs(a[0].(string)) })
	e.reg("path/filepath.Dir", func(fr *frame, fn *ssa.Function, a []value) value { return filepath.Dir(a[0].(string)) })
	e.reg("path/filepath.Base", func(fr *frame, fn *ssa.Function, a []value) value { return filepath.Base(a[0].(string)) })
	// the ledger instantiates its crypto plugin from the genesis config; harnesses
	// that need ledger-internal crypto install their stub afterwards
	// logging gets empty bodies: an uninitialised LogFitter (every method checks isInit and returns)
	e.reg("github.com/xuperchain/xupercore/lib/logs.NewLogger", func(fr *frame, fn *ssa.Function, a []value) value {
		lp := fr.m.eng.prog.ImportedPackage("github.com/xuperchain/xupercore/lib/logs")
		z := zero(lp.Type("LogFitter").Type())
		return tuple{&z, iface{}}
	})
	// pseudo-random ids: a counter (randomness is not a subject of any property here)
	e.reg("github.com/xuperchain/xupercore/lib/utils.GenPseudoUniqId", func(fr *frame, fn *ssa.Function, a []value) value {
		fr.m.models.uniq++
		return uint64(1000 + fr.m.models.uniq)
	})
	// timers and tickers never fire in the model (the stub clock does not drive them): code that only
	// waits on them for periodic housekeeping (cache janitors) blocks; stated in DESIGN.md
	for _, n := range []string{"NewTicker", "NewTimer"} {
		e.reg("time."+n, func(fr *frame, fn *ssa.Function, a []value) value {
			tt := deref(fn.Signature.Results().At(0).Type())
			z := zero(tt)
			st := tt.Underlying().(*types.Struct)
			z.(structure)[0] = &Chan{cap: 1, elem: st.Field(0).Type().Underlying().(*types.Chan).Elem()}
			return &z
		})
	}
	e.reg("(*time.Ticker).Stop", func(fr *frame, fn *ssa.Function, a []value) value { return nil })
	e.reg("(*time.Ticker).Reset", func(fr *frame, fn *ssa.Function, a []value) value { return nil })
	e.reg("(*time.Timer).Stop", func(fr *frame, fn *ssa.Function, a []value) value { return true })
	e.reg("(*time.Timer).Reset", func(fr *frame, fn *ssa.Function, a []value) value { return true })
	// contexts are opaque tokens: nothing the checked code does depends on them (deadlines / cancellation are not modelled)
	for _, n := range []string{"context.TODO", "context.Background"} {
		e.reg(n, func(fr *frame, fn *ssa.Function, a []value) value { return iface{} })
	}
	// hex encoding of symbolic bytes without table look-ups (the package is otherwise interpreted)
	e.reg("encoding/hex.EncodeToString", func(fr *frame, fn *ssa.Function, a []value) value {
		src, _ := a[0].([]value)
		return mkStr(fr.m.hexBytes(src))
	})
	e.reg("encoding/hex.Encode", func(fr *frame, fn *ssa.Function, a []value) value {
		dst, _ := a[0].([]value)
		src, _ := a[1].([]value)
		h := fr.m.hexBytes(src)
		if len(dst) < len(h) {
			fr.m.runtimePanic("index out of range")
		}
		copy(dst, h)
		return len(h)
	})
	e.reg("github.com/golang/protobuf/proto.EnumName", func(fr *frame, fn *ssa.Function, a []value) value {
		m := fr.m
		mp, _ := a[0].(*Map)
		v := int32(m.concInt(a[1], "enum value"))
		if mp != nil {
			if en := mp.find(m, v, false); en != nil {
				return en.val
			}
		}
		return strconv.Itoa(int(v))
	})
	// a harness may install its contract-level stub in vrt.CryptoClient; the factory functions then hand it out
	cryptoStub := func(fr *frame) value {
		if vp := fr.m.eng.prog.ImportedPackage("github.com/xuperchain/xupercore/zzverif/vrt"); vp != nil {
			if g := vp.Var("CryptoClient"); g != nil {
				if p := fr.m.globalAddr(g); p != nil {
					if it, ok := (*p).(iface); ok && it.t != nil {
						return tuple{it, iface{}}
					}
				}
			}
		}
		return tuple{iface{}, iface{}}
	}
	for _, n := range []string{"CreateCryptoClient", "CreateCryptoClientFromJSONPublicKey", "CreateCryptoClientFromJSONPrivateKey"} {
		e.reg("github.com/xuperchain/xupercore/lib/crypto/client."+n, func(fr *frame, fn *ssa.Function, a []value) value {
			return cryptoStub(fr)
		})
	}
	// strings.Builder: slot 1 holds the buffer ([]value)
	sbuf := func(a value) *value { s := structOf(a); return &s[1] }
	e.reg("(*strings.Builder).Grow", func(fr *frame, fn *ssa.Function, a []value) value { return nil })
	e.reg("(*strings.Builder).Reset", func(fr *frame, fn *ssa.Function, a []value) value { *sbuf(a[0]) = []value(nil); return nil })
	e.reg("(*strings.Builder).Len", func(fr *frame, fn *ssa.Function, a []value) value {
		b, _ := (*sbuf(a[0])).([]value)
		return len(b)
	})
	e.reg("(*strings.Builder).Cap", func(fr *frame, fn *ssa.Function, a []value) value {
		b, _ := (*sbuf(a[0])).([]value)
		return cap(b)
	})
	e.reg("(*strings.Builder).String", func(fr *frame, fn *ssa.Function, a []value) value {
		b, _ := (*sbuf(a[0])).([]value)
		return mkStr(b)
	})
	e.reg("(*strings.Builder).WriteString", func(fr *frame, fn *ssa.Function, a []value) value {
		p := sbuf(a[0])
		b, _ := (*p).([]value)
		*p = append(b, strBytes(a[1])...)
		return tuple{strLen(a[1]), iface{}}
	})
	e.reg("(*strings.Builder).Write", func(fr *frame, fn *ssa.Function, a []value) value {
		p := sbuf(a[0])
		b, _ := (*p).([]value)
		*p = append(b, a[1].([]value)...)
		return tuple{len(a[1].([]value)), iface{}}
	})
	e.reg("(*strings.Builder).WriteByte", func(fr *frame, fn *ssa.Function, a []value) value {
		p := sbuf(a[0])
		b, _ := (*p).([]value)
		*p = append(b, a[1])
		return iface{}
	})
	e.reg("(*strings.Builder).WriteRune", func(fr *frame, fn *ssa.Function, a []value) value {
		p := sbuf(a[0])
		b, _ := (*p).([]value)
		r, ok := a[1].(int32)
		if !ok {
			fr.m.unsupported("symbolic WriteRune")
		}
		bs := strBytes(string(rune(r)))
		*p = append(b, bs...)
		return tuple{len(bs), iface{}}
	})
	e.reg("io.WriteString", func(fr *frame, fn *ssa.Function, a []value) value {
		m := fr.m
		w := a[0].(iface)
		if w.t == nil {
			m.runtimePanic("invalid memory address or nil pointer dereference (io.WriteString to nil writer)")
		}
		wf := m.eng.prog.LookupMethod(w.t, nil, "Write")
		if wf == nil {
			m.unsupported("io.WriteString to writer without Write")
		}
		return call(m, fr, 0, wf, []value{w.v, strBytes(a[1])})
	})
	e.reg("time.initLocal", func(fr *frame, fn *ssa.Function, a []value) value { return nil })
	// reflect (minimal)
	e.reg("reflect.DeepEqual", func(fr *frame, fn *ssa.Function, a []value) value {
		return fr.m.deepEqual(a[0], a[1], 0)
	})
}

// deepEqual: structural equality following pointers (reflect.DeepEqual).
func (m *machine) deepEqual(x, y value, depth int) value {
	if depth > 50 {
		m.unsupported("deepEqual depth")
	}
	switch xv := x.(type) {
	case iface:
		yv, ok := y.(iface)
		if !ok {
			return false
		}
		if !sameType(xv.t, yv.t) {
			return false
		}
		if xv.t == nil {
			return true
		}
		return m.deepEqual(xv.v, yv.v, depth+1)
	case *value:
		yv, ok := y.(*value)
		if !ok {
			return false
		}
		if xv == nil || yv == nil {
			return xv == yv
		}
		if xv == yv {
			return true
		}
		return m.deepEqual(*xv, *yv, depth+1)
	case structure:
		yv, ok := y.(structure)
		if !ok || len(xv) != len(yv) {
			return false
		}
		var acc value = true
		for i := range xv {
			acc = m.andVal(acc, m.deepEqual(xv[i], yv[i], depth+1))
			if b, ok := acc.(bool); ok && !b {
				return false
			}
		}
		return acc
	case array:
		yv, ok := y.(array)
		if !ok || len(xv) != len(yv) {
			return false
		}
		var acc value = true
		for i := range xv {
			acc = m.andVal(acc, m.deepEqual(xv[i], yv[i], depth+1))
		}
		return acc
	case []value:
		yv, ok := y.([]value)
		if !ok || len(xv) != len(yv) || (xv == nil) != (yv == nil) {
			return false
		}
		var acc value = true
		for i := range xv {
			acc = m.andVal(acc, m.deepEqual(xv[i], yv[i], depth+1))
			if b, ok := acc.(bool); ok && !b {
				return false
			}
		}
		return acc
	case *Map:
		yv, ok := y.(*Map)
		if !ok {
			return false
		}
		if xv == nil || yv == nil {
			return xv == yv
		}
		if len(xv.entries) != len(yv.entries) {
			return false
		}
		var acc value = true
		for _, e := range xv.entries {
			o := yv.find(m, e.key, false)
			if o == nil {
				return false
			}
			acc = m.andVal(acc, m.deepEqual(e.val, o.val, depth+1))
		}
		return acc
	case string, *SymStr:
		if !isStr(y) {
			return false
		}
		return m.strEq(x, y)
	case *Term:
		return m.termVal(m.ts.Eq(xv, m.termOf(y)))
	case *ssa.Function, *closure:
		return isNilRef(x) && isNilRef(y)
	}
	if yt, ok := y.(*Term); ok {
		return m.termVal(m.ts.Eq(m.termOf(x), yt))
	}
	return x == y
}

var _ = token.ADD
