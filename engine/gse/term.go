package main

// SMT terms: a small hash-consed DAG over sorts Bool and Int (mathematical
// integers; machine wrap-around is made explicit by the interpreter).

import (
	"fmt"
	"math/big"
	"strings"
)

type Sort uint8

const (
	SBool Sort = iota
	SInt
)

type Op uint8

const (
	OpVar Op = iota
	OpConst
	OpAdd
	OpSub
	OpMul
	OpDivE // SMT-LIB floored/euclidean div (divisor constant > 0 by construction)
	OpModE
	OpNeg
	OpIte
	OpEq
	OpLt
	OpLe
	OpAnd
	OpOr
	OpNot
	OpBvBin // bitwise op through int2bv: Name = bvand|bvor|bvxor, Width bits; args are Int in [0,2^w)
	OpApp   // uninterpreted function application: Name
)

type Term struct {
	id    int
	Op    Op
	Sort  Sort
	Args  []*Term
	Name  string   // var name / bv op / uf name
	Val   *big.Int // OpConst (Int); for Bool const Val = 0/1
	Width int
	Lo    *big.Int // optional interval (Int sort), nil = unbounded
	Hi    *big.Int
	emit  int  // solver emission stamp
	app   bool // contains an uninterpreted application (not evaluable from a variable model)
}

type TermStore struct {
	n     int
	cons  map[string]*Term
	vars  []*Term
	True  *Term
	False *Term
	ufs   map[string]string // name -> declaration
}

func NewTermStore() *TermStore {
	ts := &TermStore{cons: map[string]*Term{}, ufs: map[string]string{}}
	ts.True = ts.mk(&Term{Op: OpConst, Sort: SBool, Val: big.NewInt(1)})
	ts.False = ts.mk(&Term{Op: OpConst, Sort: SBool, Val: big.NewInt(0)})
	return ts
}

func (ts *TermStore) key(t *Term) string {
	var sb strings.Builder
	fmt.Fprintf(&sb, "%d:%d:%s:%d", t.Op, t.Sort, t.Name, t.Width)
	if t.Val != nil {
		sb.WriteString(":" + t.Val.String())
	}
	for _, a := range t.Args {
		fmt.Fprintf(&sb, ",%d", a.id)
	}
	return sb.String()
}

func (ts *TermStore) mk(t *Term) *Term {
	if t.Op == OpApp {
		t.app = true
	}
	for _, a := range t.Args {
		if a.app {
			t.app = true
		}
	}
	if t.Op != OpVar {
		k := ts.key(t)
		if o, ok := ts.cons[k]; ok {
			return o
		}
		ts.n++
		t.id = ts.n
		ts.cons[k] = t
		return t
	}
	ts.n++
	t.id = ts.n
	return t
}

func (ts *TermStore) Bool(b bool) *Term {
	if b {
		return ts.True
	}
	return ts.False
}

func (ts *TermStore) IntBig(v *big.Int) *Term {
	c := new(big.Int).Set(v)
	return ts.mk(&Term{Op: OpConst, Sort: SInt, Val: c, Lo: c, Hi: c})
}

func (ts *TermStore) Int(v int64) *Term { return ts.IntBig(big.NewInt(v)) }

func (ts *TermStore) Var(name string, s Sort, lo, hi *big.Int) *Term {
	t := ts.mk(&Term{Op: OpVar, Sort: s, Name: fmt.Sprintf("%s!%d", sanitize(name), len(ts.vars)), Lo: lo, Hi: hi})
	ts.vars = append(ts.vars, t)
	return t
}

func sanitize(s string) string {
	var sb strings.Builder
	for _, r := range s {
		if r >= 'a' && r <= 'z' || r >= 'A' && r <= 'Z' || r >= '0' && r <= '9' || r == '_' || r == '.' {
			sb.WriteRune(r)
		} else {
			sb.WriteRune('_')
		}
	}
	return sb.String()
}

func (t *Term) IsConst() bool { return t.Op == OpConst }
func (t *Term) IsTrue() bool  { return t.Op == OpConst && t.Sort == SBool && t.Val.Sign() != 0 }
func (t *Term) IsFalse() bool { return t.Op == OpConst && t.Sort == SBool && t.Val.Sign() == 0 }

func addB(a, b *big.Int) *big.Int {
	if a == nil || b == nil {
		return nil
	}
	return new(big.Int).Add(a, b)
}
func subB(a, b *big.Int) *big.Int {
	if a == nil || b == nil {
		return nil
	}
	return new(big.Int).Sub(a, b)
}
func minB(xs ...*big.Int) *big.Int {
	var m *big.Int
	for _, x := range xs {
		if x == nil {
			return nil
		}
		if m == nil || x.Cmp(m) < 0 {
			m = x
		}
	}
	return m
}
func maxB(xs ...*big.Int) *big.Int {
	var m *big.Int
	for _, x := range xs {
		if x == nil {
			return nil
		}
		if m == nil || x.Cmp(m) > 0 {
			m = x
		}
	}
	return m
}

func (ts *TermStore) Add(a, b *Term) *Term {
	if a.IsConst() && b.IsConst() {
		return ts.IntBig(new(big.Int).Add(a.Val, b.Val))
	}
	if a.IsConst() && a.Val.Sign() == 0 {
		return b
	}
	if b.IsConst() && b.Val.Sign() == 0 {
		return a
	}
	if t := ts.normLinear(a, b, false); t != nil {
		return t
	}
	return ts.rawAdd(a, b)
}

func (ts *TermStore) rawAdd(a, b *Term) *Term {
	return ts.mk(&Term{Op: OpAdd, Sort: SInt, Args: []*Term{a, b}, Lo: addB(a.Lo, b.Lo), Hi: addB(a.Hi, b.Hi)})
}

func (ts *TermStore) Sub(a, b *Term) *Term {
	if a.IsConst() && b.IsConst() {
		return ts.IntBig(new(big.Int).Sub(a.Val, b.Val))
	}
	if b.IsConst() && b.Val.Sign() == 0 {
		return a
	}
	if a == b {
		return ts.Int(0)
	}
	if t := ts.normLinear(a, b, true); t != nil {
		return t
	}
	return ts.mk(&Term{Op: OpSub, Sort: SInt, Args: []*Term{a, b}, Lo: subB(a.Lo, b.Hi), Hi: subB(a.Hi, b.Lo)})
}

func (ts *TermStore) Neg(a *Term) *Term {
	if a.IsConst() {
		return ts.IntBig(new(big.Int).Neg(a.Val))
	}
	var lo, hi *big.Int
	if a.Hi != nil {
		lo = new(big.Int).Neg(a.Hi)
	}
	if a.Lo != nil {
		hi = new(big.Int).Neg(a.Lo)
	}
	return ts.mk(&Term{Op: OpNeg, Sort: SInt, Args: []*Term{a}, Lo: lo, Hi: hi})
}

func mulB(a, b *big.Int) *big.Int {
	if a == nil || b == nil {
		return nil
	}
	return new(big.Int).Mul(a, b)
}

func (ts *TermStore) Mul(a, b *Term) *Term {
	if a.IsConst() && b.IsConst() {
		return ts.IntBig(new(big.Int).Mul(a.Val, b.Val))
	}
	if a.IsConst() {
		a, b = b, a
	}
	if b.IsConst() {
		if b.Val.Sign() == 0 {
			return ts.Int(0)
		}
		if b.Val.Cmp(big.NewInt(1)) == 0 {
			return a
		}
	}
	if b.IsConst() && (a.Op == OpAdd || a.Op == OpSub || a.Op == OpNeg || a.Op == OpMul) {
		if t := ts.normScaled(a, b.Val); t != nil {
			return t
		}
	}
	return ts.rawMul(a, b)
}

func (ts *TermStore) rawMul(a, b *Term) *Term {
	var lo, hi *big.Int
	if a.Lo != nil && a.Hi != nil && b.Lo != nil && b.Hi != nil {
		c := []*big.Int{mulB(a.Lo, b.Lo), mulB(a.Lo, b.Hi), mulB(a.Hi, b.Lo), mulB(a.Hi, b.Hi)}
		lo, hi = minB(c...), maxB(c...)
	}
	return ts.mk(&Term{Op: OpMul, Sort: SInt, Args: []*Term{a, b}, Lo: lo, Hi: hi})
}

// DivE / ModE: floored division by a strictly positive constant.
func (ts *TermStore) DivE(a *Term, d *big.Int) *Term {
	if d.Sign() <= 0 {
		panic("DivE: non-positive divisor")
	}
	if a.IsConst() {
		q, m := new(big.Int).DivMod(a.Val, d, new(big.Int))
		_ = m
		return ts.IntBig(q)
	}
	if d.Cmp(big.NewInt(1)) == 0 {
		return a
	}
	if q, _, ok := ts.splitLinear(a, d); ok {
		return q
	}
	var lo, hi *big.Int
	if a.Lo != nil {
		lo, _ = new(big.Int).DivMod(a.Lo, d, new(big.Int))
	}
	if a.Hi != nil {
		hi, _ = new(big.Int).DivMod(a.Hi, d, new(big.Int))
	}
	return ts.mk(&Term{Op: OpDivE, Sort: SInt, Args: []*Term{a, ts.IntBig(d)}, Lo: lo, Hi: hi})
}

func (ts *TermStore) ModE(a *Term, d *big.Int) *Term {
	if d.Sign() <= 0 {
		panic("ModE: non-positive divisor")
	}
	if a.IsConst() {
		_, m := new(big.Int).DivMod(a.Val, d, new(big.Int))
		return ts.IntBig(m)
	}
	if a.Lo != nil && a.Hi != nil && a.Lo.Sign() >= 0 && a.Hi.Cmp(d) < 0 {
		return a
	}
	if _, r, ok := ts.splitLinear(a, d); ok {
		return r
	}
	return ts.mk(&Term{Op: OpModE, Sort: SInt, Args: []*Term{a, ts.IntBig(d)}, Lo: big.NewInt(0), Hi: new(big.Int).Sub(d, big.NewInt(1))})
}

func (ts *TermStore) Ite(c, a, b *Term) *Term {
	if c.IsTrue() {
		return a
	}
	if c.IsFalse() {
		return b
	}
	if a == b {
		return a
	}
	if a.Sort == SBool {
		if a.IsTrue() && b.IsFalse() {
			return c
		}
		if a.IsFalse() && b.IsTrue() {
			return ts.Not(c)
		}
	}
	return ts.mk(&Term{Op: OpIte, Sort: a.Sort, Args: []*Term{c, a, b}, Lo: minB(a.Lo, b.Lo), Hi: maxB(a.Hi, b.Hi)})
}

func (ts *TermStore) Eq(a, b *Term) *Term {
	if a == b {
		return ts.True
	}
	if a.IsConst() && b.IsConst() {
		return ts.Bool(a.Val.Cmp(b.Val) == 0)
	}
	if a.Sort == SInt {
		if a.Hi != nil && b.Lo != nil && a.Hi.Cmp(b.Lo) < 0 {
			return ts.False
		}
		if b.Hi != nil && a.Lo != nil && b.Hi.Cmp(a.Lo) < 0 {
			return ts.False
		}
	} else {
		if a.IsTrue() {
			return b
		}
		if b.IsTrue() {
			return a
		}
		if a.IsFalse() {
			return ts.Not(b)
		}
		if b.IsFalse() {
			return ts.Not(a)
		}
	}
	if a.id > b.id {
		a, b = b, a
	}
	return ts.mk(&Term{Op: OpEq, Sort: SBool, Args: []*Term{a, b}})
}

func (ts *TermStore) Lt(a, b *Term) *Term {
	if a.IsConst() && b.IsConst() {
		return ts.Bool(a.Val.Cmp(b.Val) < 0)
	}
	if a == b {
		return ts.False
	}
	if a.Hi != nil && b.Lo != nil && a.Hi.Cmp(b.Lo) < 0 {
		return ts.True
	}
	if a.Lo != nil && b.Hi != nil && a.Lo.Cmp(b.Hi) >= 0 {
		return ts.False
	}
	return ts.mk(&Term{Op: OpLt, Sort: SBool, Args: []*Term{a, b}})
}

func (ts *TermStore) Le(a, b *Term) *Term {
	if a.IsConst() && b.IsConst() {
		return ts.Bool(a.Val.Cmp(b.Val) <= 0)
	}
	if a == b {
		return ts.True
	}
	if a.Hi != nil && b.Lo != nil && a.Hi.Cmp(b.Lo) <= 0 {
		return ts.True
	}
	if a.Lo != nil && b.Hi != nil && a.Lo.Cmp(b.Hi) > 0 {
		return ts.False
	}
	return ts.mk(&Term{Op: OpLe, Sort: SBool, Args: []*Term{a, b}})
}

func (ts *TermStore) Not(a *Term) *Term {
	if a.IsTrue() {
		return ts.False
	}
	if a.IsFalse() {
		return ts.True
	}
	if a.Op == OpNot {
		return a.Args[0]
	}
	return ts.mk(&Term{Op: OpNot, Sort: SBool, Args: []*Term{a}})
}

func (ts *TermStore) And(xs ...*Term) *Term {
	var out []*Term
	for _, x := range xs {
		if x.IsFalse() {
			return ts.False
		}
		if x.IsTrue() {
			continue
		}
		if x.Op == OpAnd {
			out = append(out, x.Args...)
		} else {
			out = append(out, x)
		}
	}
	if len(out) == 0 {
		return ts.True
	}
	if len(out) == 1 {
		return out[0]
	}
	return ts.mk(&Term{Op: OpAnd, Sort: SBool, Args: out})
}

func (ts *TermStore) Or(xs ...*Term) *Term {
	var out []*Term
	for _, x := range xs {
		if x.IsTrue() {
			return ts.True
		}
		if x.IsFalse() {
			continue
		}
		if x.Op == OpOr {
			out = append(out, x.Args...)
		} else {
			out = append(out, x)
		}
	}
	if len(out) == 0 {
		return ts.False
	}
	if len(out) == 1 {
		return out[0]
	}
	return ts.mk(&Term{Op: OpOr, Sort: SBool, Args: out})
}

func (ts *TermStore) Implies(a, b *Term) *Term { return ts.Or(ts.Not(a), b) }

// BvBin: bitwise and/or/xor on unsigned representatives of width w.
func (ts *TermStore) BvBin(name string, w int, a, b *Term) *Term {
	hi := new(big.Int).Sub(new(big.Int).Lsh(big.NewInt(1), uint(w)), big.NewInt(1))
	if a.IsConst() && b.IsConst() {
		r := new(big.Int)
		switch name {
		case "bvand":
			r.And(a.Val, b.Val)
		case "bvor":
			r.Or(a.Val, b.Val)
		case "bvxor":
			r.Xor(a.Val, b.Val)
		}
		return ts.IntBig(r)
	}
	if name == "bvand" {
		hi = minBnn(hi, a.Hi, b.Hi)
	}
	return ts.mk(&Term{Op: OpBvBin, Sort: SInt, Name: name, Width: w, Args: []*Term{a, b}, Lo: big.NewInt(0), Hi: hi})
}

func minBnn(xs ...*big.Int) *big.Int {
	var m *big.Int
	for _, x := range xs {
		if x == nil {
			continue
		}
		if m == nil || x.Cmp(m) < 0 {
			m = x
		}
	}
	return m
}

// App: uninterpreted function application. decl is the SMT declaration
// (e.g. "(declare-fun f (Int Int) Int)").
func (ts *TermStore) App(name string, decl string, s Sort, lo, hi *big.Int, args ...*Term) *Term {
	if _, ok := ts.ufs[name]; !ok {
		ts.ufs[name] = decl
	}
	return ts.mk(&Term{Op: OpApp, Sort: s, Name: name, Args: args, Lo: lo, Hi: hi})
}

// ---- printing ----

func smtInt(v *big.Int) string {
	if v.Sign() < 0 {
		return "(- " + new(big.Int).Neg(v).String() + ")"
	}
	return v.String()
}

func (t *Term) ref() string {
	switch t.Op {
	case OpConst:
		if t.Sort == SBool {
			if t.Val.Sign() != 0 {
				return "true"
			}
			return "false"
		}
		return smtInt(t.Val)
	case OpVar:
		return t.Name
	}
	return fmt.Sprintf("t%d", t.id)
}

func (t *Term) sortName() string {
	if t.Sort == SBool {
		return "Bool"
	}
	return "Int"
}

// body prints the defining expression of a composite term, referring to
// children by name.
func (t *Term) body() string {
	a := func(i int) string { return t.Args[i].ref() }
	join := func() string {
		s := make([]string, len(t.Args))
		for i := range t.Args {
			s[i] = t.Args[i].ref()
		}
		return strings.Join(s, " ")
	}
	switch t.Op {
	case OpAdd:
		return "(+ " + join() + ")"
	case OpSub:
		return "(- " + join() + ")"
	case OpMul:
		return "(* " + join() + ")"
	case OpDivE:
		return "(div " + join() + ")"
	case OpModE:
		return "(mod " + join() + ")"
	case OpNeg:
		return "(- " + a(0) + ")"
	case OpIte:
		return "(ite " + join() + ")"
	case OpEq:
		return "(= " + join() + ")"
	case OpLt:
		return "(< " + join() + ")"
	case OpLe:
		return "(<= " + join() + ")"
	case OpAnd:
		return "(and " + join() + ")"
	case OpOr:
		return "(or " + join() + ")"
	case OpNot:
		return "(not " + a(0) + ")"
	case OpBvBin:
		return fmt.Sprintf("(bv2nat (%s ((_ int2bv %d) %s) ((_ int2bv %d) %s)))", t.Name, t.Width, a(0), t.Width, a(1))
	case OpApp:
		if len(t.Args) == 0 {
			return t.Name
		}
		return "(" + t.Name + " " + join() + ")"
	}
	panic(fmt.Sprintf("body: op %d", t.Op))
}

// String renders a term fully inlined (for diagnostics; may be large).
func (t *Term) String() string {
	var sb strings.Builder
	t.write(&sb, 0)
	return sb.String()
}

func (t *Term) write(sb *strings.Builder, depth int) {
	if t.Op == OpConst || t.Op == OpVar {
		sb.WriteString(t.ref())
		return
	}
	if depth > 12 {
		sb.WriteString("…")
		return
	}
	names := map[Op]string{OpAdd: "+", OpSub: "-", OpMul: "*", OpDivE: "div", OpModE: "mod", OpNeg: "-", OpIte: "ite", OpEq: "=", OpLt: "<", OpLe: "<=", OpAnd: "and", OpOr: "or", OpNot: "not"}
	n := names[t.Op]
	if t.Op == OpBvBin || t.Op == OpApp {
		n = t.Name
	}
	sb.WriteString("(" + n)
	for _, a := range t.Args {
		sb.WriteString(" ")
		a.write(sb, depth+1)
	}
	sb.WriteString(")")
}

// eval evaluates a term under a model (variable name -> value).
func (t *Term) eval(model map[string]*big.Int, memo map[*Term]*big.Int) *big.Int {
	if v, ok := memo[t]; ok {
		return v
	}
	var r *big.Int
	b := func(x bool) *big.Int {
		if x {
			return big.NewInt(1)
		}
		return big.NewInt(0)
	}
	ev := func(i int) *big.Int { return t.Args[i].eval(model, memo) }
	switch t.Op {
	case OpConst:
		r = t.Val
	case OpVar:
		r = model[t.Name]
		if r == nil {
			r = defaultVal(t)
		}
	case OpAdd:
		r = new(big.Int).Add(ev(0), ev(1))
	case OpSub:
		r = new(big.Int).Sub(ev(0), ev(1))
	case OpMul:
		r = new(big.Int).Mul(ev(0), ev(1))
	case OpDivE:
		r, _ = new(big.Int).DivMod(ev(0), ev(1), new(big.Int))
	case OpModE:
		_, r = new(big.Int).DivMod(ev(0), ev(1), new(big.Int))
	case OpNeg:
		r = new(big.Int).Neg(ev(0))
	case OpIte:
		if ev(0).Sign() != 0 {
			r = ev(1)
		} else {
			r = ev(2)
		}
	case OpEq:
		r = b(ev(0).Cmp(ev(1)) == 0)
	case OpLt:
		r = b(ev(0).Cmp(ev(1)) < 0)
	case OpLe:
		r = b(ev(0).Cmp(ev(1)) <= 0)
	case OpAnd:
		r = b(true)
		for i := range t.Args {
			if ev(i).Sign() == 0 {
				r = b(false)
			}
		}
	case OpOr:
		r = b(false)
		for i := range t.Args {
			if ev(i).Sign() != 0 {
				r = b(true)
			}
		}
	case OpNot:
		r = b(ev(0).Sign() == 0)
	case OpBvBin:
		x, y := ev(0), ev(1)
		r = new(big.Int)
		switch t.Name {
		case "bvand":
			r.And(x, y)
		case "bvor":
			r.Or(x, y)
		case "bvxor":
			r.Xor(x, y)
		}
	case OpApp:
		r = model["app:"+t.ref()]
		if r == nil {
			r = big.NewInt(0)
		}
	}
	memo[t] = r
	return r
}

// defaultVal: the value assumed for a variable absent from a model.
func defaultVal(t *Term) *big.Int {
	z := big.NewInt(0)
	if t.Lo != nil && t.Lo.Sign() > 0 {
		return t.Lo
	}
	if t.Hi != nil && t.Hi.Sign() < 0 {
		return t.Hi
	}
	return z
}

// linear form: sum of coef*term plus constant
type linTerm struct {
	coef *big.Int
	t    *Term
}

func (ts *TermStore) linearize(a *Term, coef *big.Int, out *[]linTerm, k *big.Int) {
	switch a.Op {
	case OpConst:
		k.Add(k, new(big.Int).Mul(coef, a.Val))
	case OpAdd:
		ts.linearize(a.Args[0], coef, out, k)
		ts.linearize(a.Args[1], coef, out, k)
	case OpSub:
		ts.linearize(a.Args[0], coef, out, k)
		ts.linearize(a.Args[1], new(big.Int).Neg(coef), out, k)
	case OpNeg:
		ts.linearize(a.Args[0], new(big.Int).Neg(coef), out, k)
	case OpMul:
		if a.Args[1].IsConst() {
			ts.linearize(a.Args[0], new(big.Int).Mul(coef, a.Args[1].Val), out, k)
			return
		}
		if a.Args[0].IsConst() {
			ts.linearize(a.Args[1], new(big.Int).Mul(coef, a.Args[0].Val), out, k)
			return
		}
		*out = append(*out, linTerm{coef, a})
	default:
		*out = append(*out, linTerm{coef, a})
	}
}

// splitLinear rewrites a = d*q + r with 0 <= r < d when a is a linear form
// whose summands are either multiples of d or together confined to [0,d).
func (ts *TermStore) splitLinear(a *Term, d *big.Int) (q, r *Term, ok bool) {
	if a.Op != OpAdd && a.Op != OpSub {
		return nil, nil, false
	}
	var lts []linTerm
	k := new(big.Int)
	ts.linearize(a, big.NewInt(1), &lts, k)
	if len(lts) > 12 {
		return nil, nil, false
	}
	qt := ts.Int(0)
	rt := ts.Int(0)
	any := false
	for _, lt := range lts {
		m := new(big.Int)
		qq, _ := new(big.Int).DivMod(lt.coef, d, m)
		if m.Sign() == 0 {
			qt = ts.Add(qt, ts.Mul(lt.t, ts.IntBig(qq)))
			any = true
		} else {
			rt = ts.Add(rt, ts.Mul(lt.t, ts.IntBig(lt.coef)))
		}
	}
	if !any {
		return nil, nil, false
	}
	kq, km := new(big.Int).DivMod(k, d, new(big.Int))
	qt = ts.Add(qt, ts.IntBig(kq))
	rt = ts.Add(rt, ts.IntBig(km))
	if rt.Lo == nil || rt.Hi == nil || rt.Lo.Sign() < 0 || rt.Hi.Cmp(d) >= 0 {
		return nil, nil, false
	}
	return qt, rt, true
}

// normLinear returns the canonical linear form of a+b (or a-b), or nil when
// the operands are too large to normalise cheaply.
func (ts *TermStore) normLinear(a, b *Term, sub bool) *Term {
	var lts []linTerm
	k := new(big.Int)
	ts.linearize(a, big.NewInt(1), &lts, k)
	if sub {
		ts.linearize(b, big.NewInt(-1), &lts, k)
	} else {
		ts.linearize(b, big.NewInt(1), &lts, k)
	}
	return ts.buildLinear(lts, k)
}

func (ts *TermStore) normScaled(a *Term, c *big.Int) *Term {
	var lts []linTerm
	k := new(big.Int)
	ts.linearize(a, c, &lts, k)
	return ts.buildLinear(lts, k)
}

func (ts *TermStore) buildLinear(lts []linTerm, k *big.Int) *Term {
	if len(lts) > 48 {
		return nil
	}
	// combine like atoms
	coef := map[*Term]*big.Int{}
	var atoms []*Term
	for _, lt := range lts {
		if c, ok := coef[lt.t]; ok {
			c.Add(c, lt.coef)
		} else {
			coef[lt.t] = new(big.Int).Set(lt.coef)
			atoms = append(atoms, lt.t)
		}
	}
	sortTermsByID(atoms)
	var acc *Term
	for _, at := range atoms {
		c := coef[at]
		if c.Sign() == 0 {
			continue
		}
		var piece *Term
		if c.Cmp(big.NewInt(1)) == 0 {
			piece = at
		} else {
			piece = ts.rawMul(at, ts.IntBig(c))
		}
		if acc == nil {
			acc = piece
		} else {
			acc = ts.rawAdd(acc, piece)
		}
	}
	if acc == nil {
		return ts.IntBig(k)
	}
	if k.Sign() != 0 {
		acc = ts.rawAdd(acc, ts.IntBig(k))
	}
	return acc
}

func sortTermsByID(a []*Term) {
	for i := 1; i < len(a); i++ {
		for j := i; j > 0 && a[j].id < a[j-1].id; j-- {
			a[j], a[j-1] = a[j-1], a[j]
		}
	}
}
