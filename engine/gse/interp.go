package main

// The instruction interpreter. Structure follows x/tools/go/ssa/interp.

import (
	"fmt"
	"go/token"
	"go/types"
	"strings"

	"golang.org/x/tools/go/ssa"
)

type continuation int

const (
	kNext continuation = iota
	kReturn
	kJump
)

type deferred struct {
	fn    value
	args  []value
	instr *ssa.Defer
	tail  *deferred
}

type frame struct {
	m                *machine
	caller           *frame
	fn               *ssa.Function
	block, prevBlock *ssa.BasicBlock
	env              map[ssa.Value]value
	locals           []value
	defers           *deferred
	result           value
	panicking        bool
	panic            interface{}
	phitemps         []value
	cur              ssa.Instruction
	th               *gthread
	loops            map[*ssa.BasicBlock]int
	mergedPhis       []value
	hasMerged        bool
}

func (fr *frame) get(key ssa.Value) value {
	switch key := key.(type) {
	case nil:
		return nil
	case *ssa.Function, *ssa.Builtin:
		return key
	case *ssa.Const:
		return constValue(key)
	case *ssa.Global:
		return fr.m.globalAddr(key)
	}
	if r, ok := fr.env[key]; ok {
		return r
	}
	panic(engineError{fmt.Sprintf("get: no value for %T: %v in %s", key, key.Name(), fr.fn)})
}

func (m *machine) globalAddr(g *ssa.Global) *value {
	if r, ok := m.globals[g]; ok {
		return r
	}
	// lazily created (externals' globals or not-yet-initialised packages)
	cell := zero(deref(g.Type()))
	p := &cell
	m.globals[g] = p
	if g.Pkg != nil && !m.eng.interpreted(g.Pkg.Pkg.Path()) {
		m.initExternalGlobal(g, p)
	} else if g.Pkg != nil {
		m.ensureInit(g.Pkg)
	}
	return p
}

// ensureInit runs the package initialiser of an interpreted package once per path.
func (m *machine) ensureInit(pkg *ssa.Package) {
	if m.inited[pkg] {
		return
	}
	m.inited[pkg] = true
	if !m.eng.interpreted(pkg.Pkg.Path()) {
		return
	}
	if m.eng.skipInit[pkg.Pkg.Path()] {
		return
	}
	if init := pkg.Func("init"); init != nil {
		th := m.cur
		call(m, &frame{m: m, th: th}, token.NoPos, init, nil)
	}
}

func (fr *frame) runDefer(d *deferred) {
	var ok bool
	defer func() {
		if !ok {
			r := recover()
			switch r.(type) {
			case targetPanic:
				fr.panicking = true
				fr.panic = r
			default:
				panic(r) // path aborts and engine errors propagate
			}
		}
	}()
	call(fr.m, fr, d.instr.Pos(), d.fn, d.args)
	ok = true
}

func (fr *frame) runDefers() {
	for d := fr.defers; d != nil; d = d.tail {
		fr.runDefer(d)
	}
	fr.defers = nil
	if fr.panicking {
		panic(fr.panic)
	}
}

func (m *machine) runtimePanic(msg string) {
	if m.spec {
		panic(specBail{})
	}
	panic(targetPanic{iface{t: m.eng.runtimeErrorType, v: msg}})
}

func visitInstr(fr *frame, instr ssa.Instruction) continuation {
	m := fr.m
	switch instr := instr.(type) {
	case *ssa.DebugRef:

	case *ssa.UnOp:
		fr.env[instr] = unop(fr, instr, fr.get(instr.X))

	case *ssa.BinOp:
		fr.env[instr] = binop(m, instr.Op, instr.X.Type(), fr.get(instr.X), fr.get(instr.Y))

	case *ssa.Call:
		fn, args := prepareCall(fr, &instr.Call)
		fr.env[instr] = call(m, fr, instr.Pos(), fn, args)

	case *ssa.ChangeInterface:
		fr.env[instr] = fr.get(instr.X)

	case *ssa.ChangeType:
		fr.env[instr] = fr.get(instr.X)

	case *ssa.Convert:
		fr.env[instr] = conv(m, instr.Type(), instr.X.Type(), fr.get(instr.X))

	case *ssa.SliceToArrayPointer:
		x := fr.get(instr.X).([]value)
		arr := deref(instr.Type()).Underlying().(*types.Array)
		if arr.Len() > int64(len(x)) {
			m.runtimePanic("cannot convert slice to array pointer: length")
		}
		if x == nil {
			fr.env[instr] = zero(instr.Type())
		} else {
			v := value(array(x[:arr.Len()]))
			fr.env[instr] = &v
		}

	case *ssa.MakeInterface:
		fr.env[instr] = iface{t: instr.X.Type(), v: fr.get(instr.X)}

	case *ssa.Extract:
		fr.env[instr] = fr.get(instr.Tuple).(tuple)[instr.Index]

	case *ssa.Slice:
		fr.env[instr] = sliceOp(fr, instr, fr.get(instr.X), fr.get(instr.Low), fr.get(instr.High), fr.get(instr.Max))

	case *ssa.Return:
		switch len(instr.Results) {
		case 0:
		case 1:
			fr.result = fr.get(instr.Results[0])
		default:
			var res []value
			for _, r := range instr.Results {
				res = append(res, fr.get(r))
			}
			fr.result = tuple(res)
		}
		fr.block = nil
		return kReturn

	case *ssa.RunDefers:
		fr.runDefers()

	case *ssa.Panic:
		panic(targetPanic{fr.get(instr.X)})

	case *ssa.Send:
		chanSend(fr, fr.get(instr.Chan).(*Chan), fr.get(instr.X))

	case *ssa.Store:
		addr := fr.get(instr.Addr).(*value)
		if addr == nil {
			m.runtimePanic("invalid memory address or nil pointer dereference")
		}
		m.sharedAccess(fr, addr, true)
		store(nil, addr, fr.get(instr.Val))

	case *ssa.If:
		succ := 1
		cv := fr.get(instr.Cond)
		if ct, ok := cv.(*Term); ok && !ct.IsConst() {
			if _, done := m.decidedTerms[ct]; !done && fr.tryMerge(ct) {
				return kJump
			}
		}
		if m.truth(cv) {
			succ = 0
		}
		fr.prevBlock, fr.block = fr.block, fr.block.Succs[succ]
		return kJump

	case *ssa.Jump:
		fr.prevBlock, fr.block = fr.block, fr.block.Succs[0]
		return kJump

	case *ssa.Defer:
		fn, args := prepareCall(fr, &instr.Call)
		defers := &fr.defers
		if instr.DeferStack != nil {
			if into := fr.get(instr.DeferStack); into != nil {
				defers = into.(**deferred)
			}
		}
		*defers = &deferred{fn: fn, args: args, instr: instr, tail: *defers}

	case *ssa.Go:
		fn, args := prepareCall(fr, &instr.Call)
		m.spawn(fr, fn, args, instr.Pos())

	case *ssa.MakeChan:
		fr.env[instr] = &Chan{cap: int(m.concInt(fr.get(instr.Size), "chan size")), elem: instr.Type().Underlying().(*types.Chan).Elem()}

	case *ssa.Alloc:
		var addr *value
		if instr.Heap {
			addr = new(value)
			fr.env[instr] = addr
		} else {
			addr = fr.env[instr].(*value)
		}
		*addr = zero(deref(instr.Type()))

	case *ssa.MakeSlice:
		capv := m.concInt(fr.get(instr.Cap), "make cap")
		lenv := m.concInt(fr.get(instr.Len), "make len")
		if lenv < 0 || capv < lenv || capv > 1<<24 {
			m.runtimePanic("makeslice: len out of range")
		}
		sl := make([]value, capv)
		tElt := instr.Type().Underlying().(*types.Slice).Elem()
		for i := range sl {
			sl[i] = zero(tElt)
		}
		fr.env[instr] = sl[:lenv]

	case *ssa.MakeMap:
		fr.env[instr] = newMap(instr.Type().Underlying().(*types.Map))

	case *ssa.Range:
		fr.env[instr] = rangeIter(fr, fr.get(instr.X), instr.X.Type())

	case *ssa.Next:
		fr.env[instr] = fr.get(instr.Iter).(iter).next(fr)

	case *ssa.FieldAddr:
		p := fr.get(instr.X).(*value)
		if p == nil {
			m.runtimePanic("invalid memory address or nil pointer dereference")
		}
		fr.env[instr] = &(*p).(structure)[instr.Field]

	case *ssa.Field:
		fr.env[instr] = fr.get(instr.X).(structure)[instr.Field]

	case *ssa.IndexAddr:
		x := fr.get(instr.X)
		switch x := x.(type) {
		case []value:
			i := m.index(fr.get(instr.Index), len(x))
			fr.env[instr] = &x[i]
		case *value:
			if x == nil {
				m.runtimePanic("invalid memory address or nil pointer dereference")
			}
			a := (*x).(array)
			i := m.index(fr.get(instr.Index), len(a))
			fr.env[instr] = &a[i]
		default:
			panic(engineError{fmt.Sprintf("unexpected x type in IndexAddr: %T", x)})
		}

	case *ssa.Index:
		x := fr.get(instr.X)
		switch x := x.(type) {
		case array:
			i := m.index(fr.get(instr.Index), len(x))
			fr.env[instr] = copyVal(x[i])
		case string:
			i := m.index(fr.get(instr.Index), len(x))
			fr.env[instr] = x[i]
		case *SymStr:
			i := m.index(fr.get(instr.Index), len(x.b))
			fr.env[instr] = x.b[i]
		default:
			panic(engineError{fmt.Sprintf("unexpected x type in Index: %T", x)})
		}

	case *ssa.Lookup:
		fr.env[instr] = lookup(fr, instr, fr.get(instr.X), fr.get(instr.Index))

	case *ssa.MapUpdate:
		mp := fr.get(instr.Map).(*Map)
		if mp == nil {
			m.runtimePanic("assignment to entry in nil map")
		}
		m.sharedAccess(fr, mp, true)
		mp.insert(m, fr.get(instr.Key), copyVal(fr.get(instr.Value)))

	case *ssa.TypeAssert:
		fr.env[instr] = typeAssert(m, instr, fr.get(instr.X).(iface))

	case *ssa.MakeClosure:
		var bindings []value
		for _, binding := range instr.Bindings {
			bindings = append(bindings, fr.get(binding))
		}
		fr.env[instr] = &closure{instr.Fn.(*ssa.Function), bindings}

	case *ssa.Phi:
		panic(engineError{"unreachable phi"})

	case *ssa.Select:
		fr.env[instr] = selectOp(fr, instr)

	default:
		panic(engineError{fmt.Sprintf("unexpected instruction: %T", instr)})
	}
	return kNext
}

// index checks and concretises an index into [0,n).
func (m *machine) index(idx value, n int) int {
	if t, ok := idx.(*Term); ok {
		inRange := m.ts.And(m.ts.Le(m.ts.Int(0), t), m.ts.Lt(t, m.ts.Int(int64(n))))
		if !m.decide(inRange) {
			m.runtimePanic(fmt.Sprintf("index out of range [sym] with length %d", n))
		}
		return int(m.concInt(t, "index"))
	}
	i := asInt64(idx)
	if !isSignedVal(idx) && asUint64(idx) > uint64(n) {
		i = int64(n) // force failure
	}
	if i < 0 || i >= int64(n) {
		m.runtimePanic(fmt.Sprintf("index out of range [%d] with length %d", i, n))
	}
	return int(i)
}

func prepareCall(fr *frame, call *ssa.CallCommon) (fn value, args []value) {
	v := fr.get(call.Value)
	if call.Method == nil {
		fn = v
	} else {
		recv := v.(iface)
		if recv.t == nil && fr.m.inInit > 0 && call.Method.Pkg() != nil && !fr.m.eng.interpreted(call.Method.Pkg().Path()) {
			// initialiser chaining calls on an opaque external object we left nil
			res := call.Signature().Results()
			fr.m.res.initSkipped++
			return &nativeFunc{name: "init-opaque", fn: func(*frame, []value) value { return zero(res) }}, nil
		}
		if recv.t == nil {
			fr.m.runtimePanic("invalid memory address or nil pointer dereference (method " + call.Method.Name() + " on nil interface)" + fr.m.stackString())
		}
		f := fr.m.eng.lookupMethod(recv.t, call.Method)
		if f == nil {
			panic(engineError{fmt.Sprintf("method set for dynamic type %v does not contain %s", recv.t, call.Method)})
		}
		fn = f
		args = append(args, recv.v)
	}
	for _, arg := range call.Args {
		args = append(args, fr.get(arg))
	}
	return
}

func (e *engine) lookupMethod(typ types.Type, meth *types.Func) *ssa.Function {
	return e.prog.LookupMethod(typ, meth.Pkg(), meth.Name())
}

func call(m *machine, caller *frame, callpos token.Pos, fn value, args []value) value {
	switch fn := fn.(type) {
	case *ssa.Function:
		if fn == nil {
			m.runtimePanic("invalid memory address or nil pointer dereference (call of nil func)")
		}
		return callSSA(m, caller, callpos, fn, args, nil)
	case *closure:
		return callSSA(m, caller, callpos, fn.Fn, args, fn.Env)
	case *ssa.Builtin:
		return callBuiltin(caller, callpos, fn, args)
	case *nativeFunc:
		return fn.fn(caller, args)
	}
	panic(engineError{fmt.Sprintf("cannot call %T", fn)})
}

func callSSA(m *machine, caller *frame, callpos token.Pos, fn *ssa.Function, args []value, env []value) value {
	fr := &frame{m: m, caller: caller, fn: fn}
	if caller != nil {
		fr.th = caller.th
	}
	if fn.Parent() == nil {
		if res, handled := m.eng.tryModel(fr, fn, args); handled {
			return res
		}
	}
	if fn.Blocks == nil {
		m.unsupported("no code for function: " + fn.String())
	}
	if fn.TypeParams().Len() > 0 && len(fn.TypeArgs()) == 0 {
		m.unsupported("uninstantiated generic: " + fn.String())
	}
	m.depth++
	m.stack = append(m.stack, fn)
	defer func() { m.stack = m.stack[:len(m.stack)-1] }()
	if m.depth > 400 {
		m.abort("unwind", "recursion depth exceeded in "+fn.String())
	}
	defer func() { m.depth-- }()
	if fn.Pkg != nil && !m.inited[fn.Pkg] && !isPkgInit(fn) {
		m.ensureInit(fn.Pkg)
	}
	m.res.funcs[fn]++
	if fn.Name() == "init" || strings.HasPrefix(fn.Name(), "init#") {
		m.inInit++
		defer func() { m.inInit-- }()
	}

	fr.env = make(map[ssa.Value]value, 16)
	fr.block = fn.Blocks[0]
	fr.locals = make([]value, len(fn.Locals))
	for i, l := range fn.Locals {
		fr.locals[i] = zero(deref(l.Type()))
		fr.env[l] = &fr.locals[i]
	}
	for i, p := range fn.Params {
		fr.env[p] = args[i]
	}
	for i, fv := range fn.FreeVars {
		fr.env[fv] = env[i]
	}
	for fr.block != nil {
		runFrame(fr)
	}
	return fr.result
}

func isPkgInit(fn *ssa.Function) bool {
	return fn.Name() == "init" && strings.Contains(fn.Synthetic, "package initializer")
}

func runFrame(fr *frame) {
	defer func() {
		if fr.block == nil {
			return // normal return
		}
		r := recover()
		if _, ok := r.(targetPanic); !ok {
			panic(r) // path aborts, engine errors, kills
		}
		fr.panicking = true
		fr.panic = r
		fr.runDefers()
		fr.block = fr.fn.Recover
		if fr.block == nil {
			// recovered in a function without named results: return zero values
			fr.result = zero(fr.fn.Signature.Results())
			if fr.fn.Signature.Results().Len() == 0 {
				fr.result = nil
			}
		}
	}()
	m := fr.m
	for {
		nonPhis := executePhis(fr)
		// loop bound: count visits of loop headers per frame-less global counter
		if fr.prevBlock != nil && fr.prevBlock.Index >= fr.block.Index {
			if fr.loops == nil {
				fr.loops = map[*ssa.BasicBlock]int{}
			}
			fr.loops[fr.block]++
			if fr.loops[fr.block] > m.unwindMax {
				m.abort("unwind", fmt.Sprintf("loop bound %d exceeded in %s block %d", m.unwindMax, fr.fn, fr.block.Index)+m.stackString())
			}
		}
		for _, instr := range nonPhis {
			fr.cur = instr
			m.nInstr++
			if m.nInstr > m.maxInstr {
				m.abort("unwind", fmt.Sprintf("instruction budget %d exceeded", m.maxInstr))
			}
			if m.eng.trace {
				if v, ok := instr.(ssa.Value); ok {
					fmt.Printf("  [%s] %s = %s\n", fr.fn.Name(), v.Name(), instr)
				} else {
					fmt.Printf("  [%s] %s\n", fr.fn.Name(), instr)
				}
			}
			if visitInstr(fr, instr) == kReturn {
				return
			}
		}
	}
}

func executePhis(fr *frame) []ssa.Instruction {
	firstNonPhi := -1
	for i, instr := range fr.block.Instrs {
		if _, ok := instr.(*ssa.Phi); !ok {
			firstNonPhi = i
			break
		}
	}
	nonPhis := fr.block.Instrs[firstNonPhi:]
	if fr.hasMerged {
		fr.hasMerged = false
		for i := 0; i < firstNonPhi; i++ {
			fr.env[fr.block.Instrs[i].(*ssa.Phi)] = fr.mergedPhis[i]
		}
		fr.mergedPhis = nil
		return nonPhis
	}
	if firstNonPhi > 0 {
		phis := fr.block.Instrs[:firstNonPhi]
		predIndex := -1
		for i, p := range fr.block.Preds {
			if p == fr.prevBlock {
				predIndex = i
				break
			}
		}
		fr.phitemps = fr.phitemps[:0]
		for _, phi := range phis {
			phi := phi.(*ssa.Phi)
			fr.phitemps = append(fr.phitemps, fr.get(phi.Edges[predIndex]))
		}
		for i, phi := range phis {
			fr.env[phi.(*ssa.Phi)] = fr.phitemps[i]
		}
	}
	return nonPhis
}

func doRecover(caller *frame) value {
	if caller != nil && !caller.panicking && caller.caller != nil && caller.caller.panicking {
		caller.caller.panicking = false
		p := caller.caller.panic
		caller.caller.panic = nil
		switch p := p.(type) {
		case targetPanic:
			return p.v
		default:
			panic(engineError{fmt.Sprintf("unexpected panic type %T in target call to recover()", p)})
		}
	}
	return iface{}
}

func panicString(m *machine, p targetPanic) string {
	if it, ok := p.v.(iface); ok {
		if s, ok := it.v.(string); ok {
			return s
		}
		if it.t != nil {
			// error values: try Error()
			if f := m.eng.prog.LookupMethod(it.t, nil, "Error"); f != nil {
				var out string
				func() {
					defer func() { recover() }()
					r := call(m, &frame{m: m, th: m.cur}, token.NoPos, f, []value{it.v})
					out = toString(r)
				}()
				if out != "" {
					return strings.Trim(out, "\"")
				}
			}
		}
	}
	return toString(p.v)
}
