package main

// math/big.Int modelled as SMT integers. The struct's slot 0 holds either
// nil (zero), a *big.Int (concrete) or a *Term (symbolic).

import (
	"go/token"
	"go/types"
	"math/big"

	"golang.org/x/tools/go/ssa"
)

const tokenADD = token.ADD

func newBigPtr(v value) *value {
	var s value = structure{v, []value(nil)}
	return &s
}

func bigGet(m *machine, p value) value {
	ptr, ok := p.(*value)
	if !ok || ptr == nil {
		m.runtimePanic("invalid memory address or nil pointer dereference (nil *big.Int)")
	}
	s := (*ptr).(structure)
	switch v := s[0].(type) {
	case *big.Int:
		return v
	case *Term:
		return v
	}
	return new(big.Int)
}

func bigSet(p value, v value) {
	ptr := p.(*value)
	s := (*ptr).(structure)
	s[0] = v
}

func (m *machine) bigTerm(v value) *Term {
	switch v := v.(type) {
	case *big.Int:
		return m.ts.IntBig(v)
	case *Term:
		return v
	}
	panic(engineError{"bigTerm"})
}

func bigNorm(t *Term) value {
	if t.IsConst() {
		return new(big.Int).Set(t.Val)
	}
	return t
}

func registerBig(e *engine) {
	pre := "(*math/big.Int)."
	e.reg("math/big.NewInt", func(fr *frame, fn *ssa.Function, a []value) value {
		if t, ok := a[0].(*Term); ok {
			return newBigPtr(t)
		}
		return newBigPtr(big.NewInt(asInt64(a[0])))
	})
	bin := func(name string, conc func(z, x, y *big.Int) *big.Int, sym func(m *machine, x, y *Term) *Term) {
		e.reg(pre+name, func(fr *frame, fn *ssa.Function, a []value) value {
			m := fr.m
			x, y := bigGet(m, a[1]), bigGet(m, a[2])
			xc, xok := x.(*big.Int)
			yc, yok := y.(*big.Int)
			if xok && yok {
				bigSet(a[0], conc(new(big.Int), xc, yc))
			} else {
				bigSet(a[0], bigNorm(sym(m, m.bigTerm(x), m.bigTerm(y))))
			}
			return a[0]
		})
	}
	bin("Add", (*big.Int).Add, func(m *machine, x, y *Term) *Term { return m.ts.Add(x, y) })
	bin("Sub", (*big.Int).Sub, func(m *machine, x, y *Term) *Term { return m.ts.Sub(x, y) })
	bin("Mul", (*big.Int).Mul, func(m *machine, x, y *Term) *Term {
		if !x.IsConst() && !y.IsConst() {
			if rangeSize(y) <= rangeSize(x) {
				y = m.ts.IntBig(m.concretize(y, "big multiplier"))
			} else {
				x = m.ts.IntBig(m.concretize(x, "big multiplier"))
			}
		}
		return m.ts.Mul(x, y)
	})
	divlike := func(name string, trunc bool, wantQuo bool) {
		e.reg(pre+name, func(fr *frame, fn *ssa.Function, a []value) value {
			m := fr.m
			x, y := bigGet(m, a[1]), bigGet(m, a[2])
			xc, xok := x.(*big.Int)
			yc, yok := y.(*big.Int)
			if yok && yc.Sign() == 0 {
				m.runtimePanic("division by zero")
			}
			if xok && yok {
				z := new(big.Int)
				switch name {
				case "Div":
					z.Div(xc, yc)
				case "Mod":
					z.Mod(xc, yc)
				case "Quo":
					z.Quo(xc, yc)
				case "Rem":
					z.Rem(xc, yc)
				}
				bigSet(a[0], z)
				return a[0]
			}
			yt := m.bigTerm(y)
			if !yt.IsConst() {
				d := m.concretize(yt, "big divisor")
				if d.Sign() == 0 {
					m.runtimePanic("division by zero")
				}
				yt = m.ts.IntBig(d)
			}
			xt := m.bigTerm(x)
			var q, r *Term
			if trunc {
				q, r = m.truncDivMod(xt, yt.Val)
			} else {
				// Euclidean: r in [0,|d|)
				ad := new(big.Int).Abs(yt.Val)
				r = m.ts.ModE(xt, ad)
				q = m.ts.DivE(xt, ad)
				if yt.Val.Sign() < 0 {
					q = m.ts.Neg(q)
				}
			}
			if wantQuo {
				bigSet(a[0], bigNorm(q))
			} else {
				bigSet(a[0], bigNorm(r))
			}
			return a[0]
		})
	}
	divlike("Div", false, true)
	divlike("Mod", false, false)
	divlike("Quo", true, true)
	divlike("Rem", true, false)

	e.reg(pre+"Set", func(fr *frame, fn *ssa.Function, a []value) value {
		bigSet(a[0], bigGet(fr.m, a[1]))
		return a[0]
	})
	e.reg(pre+"Neg", func(fr *frame, fn *ssa.Function, a []value) value {
		switch x := bigGet(fr.m, a[1]).(type) {
		case *big.Int:
			bigSet(a[0], new(big.Int).Neg(x))
		case *Term:
			bigSet(a[0], fr.m.ts.Neg(x))
		}
		return a[0]
	})
	e.reg(pre+"Abs", func(fr *frame, fn *ssa.Function, a []value) value {
		switch x := bigGet(fr.m, a[1]).(type) {
		case *big.Int:
			bigSet(a[0], new(big.Int).Abs(x))
		case *Term:
			ts := fr.m.ts
			bigSet(a[0], ts.Ite(ts.Lt(x, ts.Int(0)), ts.Neg(x), x))
		}
		return a[0]
	})
	e.reg(pre+"SetInt64", func(fr *frame, fn *ssa.Function, a []value) value {
		if t, ok := a[1].(*Term); ok {
			bigSet(a[0], t)
		} else {
			bigSet(a[0], big.NewInt(asInt64(a[1])))
		}
		return a[0]
	})
	e.reg(pre+"SetUint64", func(fr *frame, fn *ssa.Function, a []value) value {
		if t, ok := a[1].(*Term); ok {
			bigSet(a[0], t)
		} else {
			bigSet(a[0], new(big.Int).SetUint64(asUint64(a[1])))
		}
		return a[0]
	})
	e.reg(pre+"Cmp", func(fr *frame, fn *ssa.Function, a []value) value {
		m := fr.m
		x, y := bigGet(m, a[0]), bigGet(m, a[1])
		xc, xok := x.(*big.Int)
		yc, yok := y.(*big.Int)
		if xok && yok {
			return xc.Cmp(yc)
		}
		xt, yt := m.bigTerm(x), m.bigTerm(y)
		ts := m.ts
		r := ts.Ite(ts.Lt(xt, yt), ts.Int(-1), ts.Ite(ts.Eq(xt, yt), ts.Int(0), ts.Int(1)))
		if r.IsConst() {
			return int(r.Val.Int64())
		}
		return r
	})
	e.reg(pre+"CmpAbs", func(fr *frame, fn *ssa.Function, a []value) value {
		m := fr.m
		x, y := bigGet(m, a[0]), bigGet(m, a[1])
		xc, xok := x.(*big.Int)
		yc, yok := y.(*big.Int)
		if xok && yok {
			return xc.CmpAbs(yc)
		}
		m.unsupported("symbolic big.Int.CmpAbs")
		return nil
	})
	e.reg(pre+"Sign", func(fr *frame, fn *ssa.Function, a []value) value {
		m := fr.m
		switch x := bigGet(m, a[0]).(type) {
		case *big.Int:
			return x.Sign()
		case *Term:
			ts := m.ts
			r := ts.Ite(ts.Lt(x, ts.Int(0)), ts.Int(-1), ts.Ite(ts.Eq(x, ts.Int(0)), ts.Int(0), ts.Int(1)))
			if r.IsConst() {
				return int(r.Val.Int64())
			}
			return r
		}
		return 0
	})
	e.reg(pre+"Int64", func(fr *frame, fn *ssa.Function, a []value) value {
		m := fr.m
		switch x := bigGet(m, a[0]).(type) {
		case *big.Int:
			return x.Int64()
		case *Term:
			// low 64 bits of |x| with sign, reinterpreted: for in-range values identity
			return m.wrap(x, intKind{64, true, types.Int64})
		}
		return int64(0)
	})
	e.reg(pre+"Uint64", func(fr *frame, fn *ssa.Function, a []value) value {
		m := fr.m
		switch x := bigGet(m, a[0]).(type) {
		case *big.Int:
			return x.Uint64()
		case *Term:
			if x.Lo != nil && x.Lo.Sign() >= 0 {
				return m.wrap(x, intKind{64, false, types.Uint64})
			}
			m.unsupported("big.Int.Uint64 of possibly negative symbolic value")
		}
		return uint64(0)
	})
	e.reg(pre+"IsInt64", func(fr *frame, fn *ssa.Function, a []value) value {
		m := fr.m
		switch x := bigGet(m, a[0]).(type) {
		case *big.Int:
			return x.IsInt64()
		case *Term:
			k := intKind{64, true, types.Int64}
			return m.termVal(m.ts.And(m.ts.Le(m.ts.IntBig(k.min()), x), m.ts.Le(x, m.ts.IntBig(k.max()))))
		}
		return true
	})
	e.reg(pre+"IsUint64", func(fr *frame, fn *ssa.Function, a []value) value {
		m := fr.m
		switch x := bigGet(m, a[0]).(type) {
		case *big.Int:
			return x.IsUint64()
		case *Term:
			k := intKind{64, false, types.Uint64}
			return m.termVal(m.ts.And(m.ts.Le(m.ts.Int(0), x), m.ts.Le(x, m.ts.IntBig(k.max()))))
		}
		return true
	})
	e.reg(pre+"BitLen", func(fr *frame, fn *ssa.Function, a []value) value {
		m := fr.m
		switch x := bigGet(m, a[0]).(type) {
		case *big.Int:
			return x.BitLen()
		case *Term:
			n := m.concretize(m.bitLenTerm(x), "big.BitLen")
			return int(n.Int64())
		}
		return 0
	})
	e.reg(pre+"SetBytes", func(fr *frame, fn *ssa.Function, a []value) value {
		m := fr.m
		bs := a[1].([]value)
		if cb, ok := concBytes(bs); ok {
			bigSet(a[0], new(big.Int).SetBytes(cb))
			return a[0]
		}
		if src, ok := m.wholeProv(bs, "bigbytes"); ok {
			bigSet(a[0], src)
			return a[0]
		}
		acc := m.ts.Int(0)
		for _, b := range bs {
			acc = m.ts.Add(m.ts.Mul(acc, m.ts.Int(256)), m.termOf(b))
		}
		bigSet(a[0], bigNorm(acc))
		return a[0]
	})
	e.reg(pre+"Bytes", func(fr *frame, fn *ssa.Function, a []value) value {
		m := fr.m
		switch x := bigGet(m, a[0]).(type) {
		case *big.Int:
			return bytesToValues(x.Bytes())
		case *Term:
			return m.bigBytes(x)
		}
		return []value{}
	})
	e.reg(pre+"String", func(fr *frame, fn *ssa.Function, a []value) value {
		m := fr.m
		if p, ok := a[0].(*value); ok && p == nil {
			return "<nil>"
		}
		switch x := bigGet(m, a[0]).(type) {
		case *big.Int:
			return x.String()
		case *Term:
			return m.decimalString(x)
		}
		return "0"
	})
	e.reg(pre+"Text", func(fr *frame, fn *ssa.Function, a []value) value {
		m := fr.m
		base := int(m.concInt(a[1], "base"))
		switch x := bigGet(m, a[0]).(type) {
		case *big.Int:
			return x.Text(base)
		case *Term:
			if base == 10 {
				return m.decimalString(x)
			}
			m.unsupported("symbolic big.Int.Text base != 10")
		}
		return "0"
	})
	e.reg(pre+"SetString", func(fr *frame, fn *ssa.Function, a []value) value {
		m := fr.m
		base := int(m.concInt(a[2], "base"))
		if s, ok := a[1].(string); ok {
			z, ok := new(big.Int).SetString(s, base)
			if !ok {
				return tuple{(*value)(nil), false}
			}
			bigSet(a[0], z)
			return tuple{a[0], true}
		}
		ss := a[1].(*SymStr)
		if base != 10 && base != 0 {
			m.unsupported("symbolic big.Int.SetString base != 10")
		}
		t, ok := m.parseDecimal(ss.b, true)
		if !ok {
			return tuple{(*value)(nil), false}
		}
		bigSet(a[0], bigNorm(t))
		return tuple{a[0], true}
	})
	e.reg(pre+"Lsh", func(fr *frame, fn *ssa.Function, a []value) value {
		m := fr.m
		n := uint(m.concInt(a[2], "Lsh"))
		switch x := bigGet(m, a[1]).(type) {
		case *big.Int:
			bigSet(a[0], new(big.Int).Lsh(x, n))
		case *Term:
			bigSet(a[0], m.ts.Mul(x, m.ts.IntBig(pow2(int(n)))))
		}
		return a[0]
	})
	e.reg(pre+"Rsh", func(fr *frame, fn *ssa.Function, a []value) value {
		m := fr.m
		n := uint(m.concInt(a[2], "Rsh"))
		switch x := bigGet(m, a[1]).(type) {
		case *big.Int:
			bigSet(a[0], new(big.Int).Rsh(x, n))
		case *Term:
			bigSet(a[0], bigNorm(m.ts.DivE(x, pow2(int(n)))))
		}
		return a[0]
	})
	e.reg(pre+"Exp", func(fr *frame, fn *ssa.Function, a []value) value {
		m := fr.m
		x, y := bigGet(m, a[1]), bigGet(m, a[2])
		xc, xok := x.(*big.Int)
		yc, yok := y.(*big.Int)
		var mc *big.Int
		if p, ok := a[3].(*value); ok && p != nil {
			mm, ok := bigGet(m, a[3]).(*big.Int)
			if !ok {
				m.unsupported("symbolic big.Int.Exp modulus")
			}
			mc = mm
		}
		if !xok || !yok {
			m.unsupported("symbolic big.Int.Exp")
		}
		bigSet(a[0], new(big.Int).Exp(xc, yc, mc))
		return a[0]
	})
	e.reg(pre+"And", func(fr *frame, fn *ssa.Function, a []value) value {
		m := fr.m
		x, y := bigGet(m, a[1]), bigGet(m, a[2])
		xc, xok := x.(*big.Int)
		yc, yok := y.(*big.Int)
		if xok && yok {
			bigSet(a[0], new(big.Int).And(xc, yc))
			return a[0]
		}
		// symbolic & constant low mask
		for _, p := range [][2]value{{x, y}, {y, x}} {
			if c, ok := p[1].(*big.Int); ok && c.Sign() >= 0 {
				mk := new(big.Int).Add(c, big.NewInt(1))
				if new(big.Int).And(mk, c).Sign() == 0 {
					t := m.bigTerm(p[0])
					if t.Lo != nil && t.Lo.Sign() >= 0 {
						bigSet(a[0], bigNorm(m.ts.ModE(t, mk)))
						return a[0]
					}
				}
			}
		}
		m.unsupported("symbolic big.Int.And (general)")
		return nil
	})
	e.reg(pre+"ProbablyPrime", func(fr *frame, fn *ssa.Function, a []value) value {
		x, ok := bigGet(fr.m, a[0]).(*big.Int)
		if !ok {
			fr.m.unsupported("symbolic ProbablyPrime")
		}
		return x.ProbablyPrime(int(asInt64(a[1])))
	})
}

// bitLenTerm: number of bits of |x| as an ite chain bounded by the interval.
func (m *machine) bitLenTerm(x *Term) *Term {
	ts := m.ts
	ax := ts.Ite(ts.Lt(x, ts.Int(0)), ts.Neg(x), x)
	maxBits := 640
	if x.Lo != nil && x.Hi != nil {
		a, b := new(big.Int).Abs(x.Lo), new(big.Int).Abs(x.Hi)
		if a.Cmp(b) > 0 {
			b = a
		}
		maxBits = b.BitLen()
	}
	r := ts.Int(int64(maxBits))
	for n := maxBits - 1; n >= 0; n-- {
		// bitlen <= n  iff  |x| < 2^n
		r = ts.Ite(ts.Lt(ax, ts.IntBig(pow2(n))), ts.Int(int64(n)), r)
	}
	return r
}

// bigBytes: big-endian minimal bytes of a non-negative symbolic integer
// (the absolute value for negatives); splits on the byte length.
func (m *machine) bigBytes(x *Term) []value {
	ts := m.ts
	ax := x
	if x.Lo == nil || x.Lo.Sign() < 0 {
		ax = ts.Ite(ts.Lt(x, ts.Int(0)), ts.Neg(x), x)
	}
	// byte length
	maxLen := 80
	if ax.Hi != nil {
		maxLen = (ax.Hi.BitLen() + 7) / 8
	} else if x.Lo != nil && x.Hi != nil {
		a, b := new(big.Int).Abs(x.Lo), new(big.Int).Abs(x.Hi)
		if a.Cmp(b) > 0 {
			b = a
		}
		maxLen = (b.BitLen() + 7) / 8
	}
	n := maxLen
	for k := 0; k < maxLen; k++ {
		// len <= k iff ax < 256^k
		if m.decide(ts.Lt(ax, ts.IntBig(pow2(8*k)))) {
			n = k
			break
		}
	}
	out := make([]value, n)
	for i := 0; i < n; i++ {
		// byte i from the most significant
		sh := 8 * (n - 1 - i)
		b := ts.ModE(ts.DivE(ax, pow2(sh)), big.NewInt(256))
		if b.IsConst() {
			out[i] = uint8(b.Val.Int64())
		} else {
			out[i] = b
			m.setProv(b, provenance{"bigbytes", ax, i, n})
		}
	}
	return out
}

// decimalString renders a symbolic integer in base 10 (splits on sign and digit count).
func (m *machine) decimalString(x *Term) value {
	ts := m.ts
	neg := false
	ax := x
	if x.Lo == nil || x.Lo.Sign() < 0 {
		if m.decide(ts.Lt(x, ts.Int(0))) {
			neg = true
			ax = ts.Neg(x)
		}
	}
	maxDigits := 80
	if ax.Hi != nil {
		maxDigits = len(ax.Hi.String())
	}
	n := maxDigits
	p := big.NewInt(10)
	for k := 1; k < maxDigits; k++ {
		if m.decide(ts.Lt(ax, ts.IntBig(p))) {
			n = k
			break
		}
		p = new(big.Int).Mul(p, big.NewInt(10))
	}
	var out []value
	if neg {
		out = append(out, uint8('-'))
	}
	for i := 0; i < n; i++ {
		d := new(big.Int).Exp(big.NewInt(10), big.NewInt(int64(n-1-i)), nil)
		dig := ts.ModE(ts.DivE(ax, d), big.NewInt(10))
		c := ts.Add(dig, ts.Int('0'))
		if c.IsConst() {
			out = append(out, uint8(c.Val.Int64()))
		} else {
			out = append(out, c)
			if !neg {
				m.setProv(c, provenance{"decimal", ax, i, n})
			}
		}
	}
	return mkStr(out)
}

// parseDecimal parses a (partly symbolic) decimal string; path splits decide
// whether each byte is a digit.
func (m *machine) parseDecimal(b []value, allowSign bool) (*Term, bool) {
	ts := m.ts
	if len(b) == 0 {
		return nil, false
	}
	if src, ok := m.wholeProv(b, "decimal"); ok {
		return src, true
	}
	neg := false
	i := 0
	if allowSign {
		c := m.termOf(b[0])
		if m.decide(ts.Eq(c, ts.Int('-'))) {
			neg = true
			i = 1
		} else if m.decide(ts.Eq(c, ts.Int('+'))) {
			i = 1
		}
	}
	if i >= len(b) {
		return nil, false
	}
	acc := ts.Int(0)
	for ; i < len(b); i++ {
		c := m.termOf(b[i])
		if !m.decide(ts.And(ts.Le(ts.Int('0'), c), ts.Le(c, ts.Int('9')))) {
			return nil, false
		}
		acc = ts.Add(ts.Mul(acc, ts.Int(10)), ts.Sub(c, ts.Int('0')))
	}
	if neg {
		acc = ts.Neg(acc)
	}
	return acc, true
}
