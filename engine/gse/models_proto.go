package main

// golang/protobuf (proto3, generated structs with `protobuf:"…"` tags)
// modelled by an explicit wire-format encoder/decoder over interpreter
// values. Bytes may be symbolic; structure (tags, lengths) stays concrete.

import (
	"fmt"
	"go/types"
	"math"
	"math/big"
	"reflect"
	"sort"
	"strconv"
	"strings"

	"golang.org/x/tools/go/ssa"
)

type pbField struct {
	idx   int
	num   int
	wire  string // bytes | varint | fixed64 | fixed32 | zigzag32 | zigzag64
	rep   bool
	typ   types.Type
	name  string
	keyT  string // for maps: wire of key
	valT  string
	isMap bool
}

func parsePbTag(tag string) (wire string, num int, rep bool, name string, ok bool) {
	parts := strings.Split(tag, ",")
	if len(parts) < 3 {
		return
	}
	wire = parts[0]
	num, _ = strconv.Atoi(parts[1])
	rep = parts[2] == "rep"
	for _, p := range parts[3:] {
		if strings.HasPrefix(p, "name=") {
			name = p[5:]
		}
	}
	ok = true
	return
}

var pbFieldCache = map[*types.Struct][]pbField{}
var pbFieldMu = newMutex()

func pbFields(st *types.Struct) []pbField {
	pbFieldMu.Lock()
	defer pbFieldMu.Unlock()
	if fs, ok := pbFieldCache[st]; ok {
		return fs
	}
	var fs []pbField
	for i := 0; i < st.NumFields(); i++ {
		tag := reflect.StructTag(st.Tag(i))
		pt := tag.Get("protobuf")
		if pt == "" {
			continue
		}
		wire, num, rep, name, ok := parsePbTag(pt)
		if !ok {
			continue
		}
		f := pbField{idx: i, num: num, wire: wire, rep: rep, typ: st.Field(i).Type(), name: name}
		if _, isMap := f.typ.Underlying().(*types.Map); isMap {
			f.isMap = true
			f.keyT, _, _, _, _ = parsePbTag(tag.Get("protobuf_key"))
			f.valT, _, _, _, _ = parsePbTag(tag.Get("protobuf_val"))
		}
		fs = append(fs, f)
	}
	sort.Slice(fs, func(i, j int) bool { return fs[i].num < fs[j].num })
	pbFieldCache[st] = fs
	return fs
}

// ---------------------------------------------------------------- encode

func (m *machine) pbVarint(v value, t types.Type) []value {
	// returns the varint bytes of an integer/bool value (two's complement 64 for negatives)
	if b, ok := v.(bool); ok {
		if b {
			return []value{uint8(1)}
		}
		return []value{uint8(0)}
	}
	if tm, ok := v.(*Term); ok {
		if tm.Sort == SBool {
			return []value{m.ts.Ite(tm, m.ts.Int(1), m.ts.Int(0))}
		}
		k, _ := intInfo(t)
		u := tm
		if k.signed {
			// sign-extend to 64 bits then unsigned representative
			u = m.unsignedRep(tm, intKind{64, true, types.Int64})
		}
		// length split
		n := 10
		for i := 1; i < 10; i++ {
			if m.decide(m.ts.Lt(u, m.ts.IntBig(pow2(7*i)))) {
				n = i
				break
			}
		}
		out := make([]value, n)
		for i := 0; i < n; i++ {
			d := m.ts.ModE(m.ts.DivE(u, pow2(7*i)), big.NewInt(128))
			if i < n-1 {
				d = m.ts.Add(d, m.ts.Int(128))
			}
			if d.IsConst() {
				out[i] = uint8(d.Val.Int64())
			} else {
				out[i] = d
				m.setProv(d, provenance{"varint", u, i, n})
			}
		}
		return out
	}
	var u uint64
	if isSignedVal(v) {
		u = uint64(asInt64(v))
	} else {
		u = asUint64(v)
	}
	var out []value
	for u >= 0x80 {
		out = append(out, uint8(u)|0x80)
		u >>= 7
	}
	return append(out, uint8(u))
}

func pbTagBytes(num int, wt int) []value {
	u := uint64(num)<<3 | uint64(wt)
	var out []value
	for u >= 0x80 {
		out = append(out, uint8(u)|0x80)
		u >>= 7
	}
	return append(out, uint8(u))
}

func pbLenBytes(n int) []value {
	u := uint64(n)
	var out []value
	for u >= 0x80 {
		out = append(out, uint8(u)|0x80)
		u >>= 7
	}
	return append(out, uint8(u))
}

func (m *machine) isZeroScalar(v value) bool {
	switch x := v.(type) {
	case bool:
		return !x
	case *Term:
		if x.Sort == SBool {
			return !m.decide(x)
		}
		return m.decide(m.ts.Eq(x, m.ts.Int(0)))
	case float64:
		return x == 0 && !math.Signbit(x)
	case float32:
		return x == 0
	}
	return asInt64(v) == 0
}

func (m *machine) pbScalar(wire string, v value, t types.Type) []value {
	switch wire {
	case "varint":
		return m.pbVarint(v, t)
	case "fixed64":
		var u uint64
		switch x := v.(type) {
		case float64:
			u = math.Float64bits(x)
		case *Term:
			m.unsupported("symbolic fixed64 in protobuf")
		default:
			u = asUint64(v)
		}
		out := make([]value, 8)
		for i := 0; i < 8; i++ {
			out[i] = uint8(u >> (8 * i))
		}
		return out
	case "fixed32":
		var u uint32
		switch x := v.(type) {
		case float32:
			u = math.Float32bits(x)
		default:
			u = uint32(asUint64(v))
		}
		out := make([]value, 4)
		for i := 0; i < 4; i++ {
			out[i] = uint8(u >> (8 * i))
		}
		return out
	}
	m.unsupported("protobuf wire type " + wire)
	return nil
}

func wireNum(wire string) int {
	switch wire {
	case "varint", "zigzag32", "zigzag64":
		return 0
	case "fixed64":
		return 1
	case "bytes":
		return 2
	case "fixed32":
		return 5
	}
	return 2
}

// pbEncodeMsg encodes the message struct pointed to by p.
func (m *machine) pbEncodeMsg(p *value, t types.Type) []value {
	st, ok := t.Underlying().(*types.Struct)
	if !ok {
		m.unsupported("protobuf message type " + t.String())
	}
	s := (*p).(structure)
	out := []value{}
	for _, f := range pbFields(st) {
		v := s[f.idx]
		out = append(out, m.pbEncodeField(f, v)...)
	}
	return out
}

func (m *machine) pbBytesOf(v value) []value {
	switch x := v.(type) {
	case []value:
		return x
	case string, *SymStr:
		return strBytes(x)
	}
	panic(engineError{fmt.Sprintf("pbBytesOf %T", v)})
}

func (m *machine) pbEncodeField(f pbField, v value) []value {
	var out []value
	emitBytes := func(b []value) {
		out = append(out, pbTagBytes(f.num, 2)...)
		out = append(out, pbLenBytes(len(b))...)
		out = append(out, b...)
	}
	switch ut := f.typ.Underlying().(type) {
	case *types.Basic:
		if ut.Info()&types.IsString != 0 {
			if strLen(v) > 0 {
				emitBytes(strBytes(v))
			}
			return out
		}
		if m.isZeroScalar(v) {
			return out
		}
		out = append(out, pbTagBytes(f.num, wireNum(f.wire))...)
		out = append(out, m.pbScalar(f.wire, v, f.typ)...)
	case *types.Pointer:
		p := v.(*value)
		if p == nil {
			return out
		}
		emitBytes(m.pbEncodeMsg(p, ut.Elem()))
	case *types.Slice:
		sl := v.([]value)
		switch et := ut.Elem().Underlying().(type) {
		case *types.Basic:
			if et.Kind() == types.Uint8 && f.wire == "bytes" && !f.rep {
				if len(sl) > 0 {
					emitBytes(sl)
				}
				return out
			}
			if et.Info()&types.IsString != 0 {
				for _, e := range sl {
					emitBytes(strBytes(e))
				}
				return out
			}
			// packed repeated scalars
			if len(sl) == 0 {
				return out
			}
			var body []value
			for _, e := range sl {
				body = append(body, m.pbScalar(f.wire, e, ut.Elem())...)
			}
			emitBytes(body)
		case *types.Pointer:
			for _, e := range sl {
				p := e.(*value)
				if p == nil {
					m.runtimePanic("proto: repeated field " + f.name + " has nil element")
				}
				emitBytes(m.pbEncodeMsg(p, et.Elem()))
			}
		case *types.Slice: // [][]byte
			for _, e := range sl {
				emitBytes(e.([]value))
			}
		default:
			m.unsupported("protobuf repeated of " + ut.Elem().String())
		}
	case *types.Map:
		mp := v.(*Map)
		if mp == nil {
			return out
		}
		ents := append([]*mapEntry{}, mp.entries...)
		// deterministic: sort by concrete key where possible
		sort.SliceStable(ents, func(i, j int) bool {
			a, aok := ents[i].key.(string)
			b, bok := ents[j].key.(string)
			if aok && bok {
				return a < b
			}
			return false
		})
		kf := pbField{num: 1, wire: f.keyT, typ: ut.Key()}
		vf := pbField{num: 2, wire: f.valT, typ: ut.Elem()}
		for _, e := range ents {
			body := m.pbEncodeMapPart(kf, e.key)
			body = append(body, m.pbEncodeMapPart(vf, e.val)...)
			emitBytes(body)
		}
	default:
		m.unsupported("protobuf field type " + f.typ.String())
	}
	return out
}

// map entry parts are always emitted (key and value present).
func (m *machine) pbEncodeMapPart(f pbField, v value) []value {
	var out []value
	switch ut := f.typ.Underlying().(type) {
	case *types.Basic:
		if ut.Info()&types.IsString != 0 {
			b := strBytes(v)
			out = append(out, pbTagBytes(f.num, 2)...)
			out = append(out, pbLenBytes(len(b))...)
			return append(out, b...)
		}
		out = append(out, pbTagBytes(f.num, wireNum(f.wire))...)
		return append(out, m.pbScalar(f.wire, v, f.typ)...)
	case *types.Slice:
		b := v.([]value)
		out = append(out, pbTagBytes(f.num, 2)...)
		out = append(out, pbLenBytes(len(b))...)
		return append(out, b...)
	case *types.Pointer:
		p := v.(*value)
		var b []value
		if p != nil {
			b = m.pbEncodeMsg(p, ut.Elem())
		}
		out = append(out, pbTagBytes(f.num, 2)...)
		out = append(out, pbLenBytes(len(b))...)
		return append(out, b...)
	}
	m.unsupported("protobuf map part " + f.typ.String())
	return nil
}

// ---------------------------------------------------------------- decode

type pbReader struct {
	m   *machine
	b   []value
	pos int
	err string
}

func (r *pbReader) varint() (value, bool) {
	m := r.m
	// fast path: the bytes are exactly a varint this path encoded earlier
	if r.pos < len(r.b) {
		if t, ok := r.b[r.pos].(*Term); ok && m.prov != nil {
			if p, ok := m.prov[t]; ok && p.kind == "varint" && p.idx == 0 && r.pos+p.n <= len(r.b) {
				if src, ok := m.wholeProv(r.b[r.pos:r.pos+p.n], "varint"); ok {
					r.pos += p.n
					return src, true
				}
			}
		}
	}
	var acc uint64
	var accT *Term
	shift := 0
	for i := 0; i < 10; i++ {
		if r.pos >= len(r.b) {
			r.err = "unexpected EOF"
			return nil, false
		}
		c := r.b[r.pos]
		r.pos++
		if t, ok := c.(*Term); ok {
			more := m.decide(m.ts.Le(m.ts.Int(128), t))
			var low *Term
			if more {
				low = m.ts.Sub(t, m.ts.Int(128))
			} else {
				low = t
			}
			if accT == nil {
				accT = m.ts.IntBig(new(big.Int).SetUint64(acc))
			}
			accT = m.ts.Add(accT, m.ts.Mul(low, m.ts.IntBig(pow2(shift))))
			shift += 7
			if !more {
				return m.ts.ModE(accT, pow2(64)), true
			}
			continue
		}
		u := c.(uint8)
		if accT != nil {
			accT = m.ts.Add(accT, m.ts.IntBig(new(big.Int).Lsh(big.NewInt(int64(u&0x7f)), uint(shift))))
		} else {
			acc |= uint64(u&0x7f) << uint(shift)
		}
		shift += 7
		if u < 0x80 {
			if accT != nil {
				return m.ts.ModE(accT, pow2(64)), true
			}
			return acc, true
		}
	}
	r.err = "varint overflow"
	return nil, false
}

func (r *pbReader) concVarint(why string) (uint64, bool) {
	v, ok := r.varint()
	if !ok {
		return 0, false
	}
	if t, ok := v.(*Term); ok {
		return r.m.concretize(t, why).Uint64(), true
	}
	return v.(uint64), true
}

func (r *pbReader) bytes() ([]value, bool) {
	n, ok := r.concVarint("protobuf length")
	if !ok {
		return nil, false
	}
	if uint64(r.pos)+n > uint64(len(r.b)) {
		r.err = "unexpected EOF"
		return nil, false
	}
	b := r.b[r.pos : r.pos+int(n)]
	r.pos += int(n)
	return b, true
}

func (r *pbReader) skip(wt int) bool {
	switch wt {
	case 0:
		_, ok := r.varint()
		return ok
	case 1:
		r.pos += 8
	case 2:
		_, ok := r.bytes()
		return ok
	case 5:
		r.pos += 4
	default:
		r.err = fmt.Sprintf("illegal wire type %d", wt)
		return false
	}
	if r.pos > len(r.b) {
		r.err = "unexpected EOF"
		return false
	}
	return true
}

// scalarFromVarint converts a decoded 64-bit unsigned varint to Go type t.
func (m *machine) scalarFromVarint(v value, t types.Type) value {
	if b, ok := t.Underlying().(*types.Basic); ok && b.Info()&types.IsBoolean != 0 {
		if tm, ok := v.(*Term); ok {
			return m.termVal(m.ts.Not(m.ts.Eq(tm, m.ts.Int(0))))
		}
		return v.(uint64) != 0
	}
	k, _ := intInfo(t)
	if tm, ok := v.(*Term); ok {
		return m.wrap(m.fromUnsignedRep(tm, intKind{64, true, types.Int64}), k)
	}
	return fromUint64(k.kind, v.(uint64))
}

func (r *pbReader) fixed(n int) (uint64, bool) {
	if r.pos+n > len(r.b) {
		r.err = "unexpected EOF"
		return 0, false
	}
	var u uint64
	for i := 0; i < n; i++ {
		c, ok := r.b[r.pos+i].(uint8)
		if !ok {
			c = uint8(r.m.concInt(r.b[r.pos+i], "fixed field byte"))
		}
		u |= uint64(c) << (8 * i)
	}
	r.pos += n
	return u, true
}

func cloneBytesNilEmpty(b []value) []value {
	if len(b) == 0 {
		return nil
	}
	return append([]value{}, b...)
}

// pbDecodeMsg merges wire bytes into the message struct at p. Returns "" or an error text.
func (m *machine) pbDecodeMsg(b []value, p *value, t types.Type) string {
	st := t.Underlying().(*types.Struct)
	s := (*p).(structure)
	fields := pbFields(st)
	byNum := map[int]pbField{}
	for _, f := range fields {
		byNum[f.num] = f
	}
	r := &pbReader{m: m, b: b}
	for r.pos < len(r.b) {
		tag, ok := r.concVarint("protobuf tag")
		if !ok {
			return "proto: " + r.err
		}
		num, wt := int(tag>>3), int(tag&7)
		if num <= 0 {
			return "proto: illegal tag 0"
		}
		f, known := byNum[num]
		if !known {
			if !r.skip(wt) {
				return "proto: " + r.err
			}
			continue
		}
		if err := m.pbDecodeField(r, f, wt, &s[f.idx]); err != "" {
			return err
		}
	}
	return ""
}

func (m *machine) pbDecodeScalarInto(r *pbReader, wire string, wt int, t types.Type) (value, string) {
	switch wt {
	case 0:
		v, ok := r.varint()
		if !ok {
			return nil, "proto: " + r.err
		}
		return m.scalarFromVarint(v, t), ""
	case 1:
		u, ok := r.fixed(8)
		if !ok {
			return nil, "proto: " + r.err
		}
		if b, ok := t.Underlying().(*types.Basic); ok && b.Kind() == types.Float64 {
			return math.Float64frombits(u), ""
		}
		k, _ := intInfo(t)
		return fromUint64(k.kind, u), ""
	case 5:
		u, ok := r.fixed(4)
		if !ok {
			return nil, "proto: " + r.err
		}
		if b, ok := t.Underlying().(*types.Basic); ok && b.Kind() == types.Float32 {
			return math.Float32frombits(uint32(u)), ""
		}
		k, _ := intInfo(t)
		return fromUint64(k.kind, u), ""
	}
	return nil, "proto: bad wire type for scalar"
}

func (m *machine) pbDecodeField(r *pbReader, f pbField, wt int, slot *value) string {
	switch ut := f.typ.Underlying().(type) {
	case *types.Basic:
		if ut.Info()&types.IsString != 0 {
			if wt != 2 {
				return "proto: bad wiretype for string field " + f.name
			}
			b, ok := r.bytes()
			if !ok {
				return "proto: " + r.err
			}
			*slot = mkStr(b)
			return ""
		}
		v, err := m.pbDecodeScalarInto(r, f.wire, wt, f.typ)
		if err != "" {
			return err
		}
		*slot = v
	case *types.Pointer:
		if wt != 2 {
			return "proto: bad wiretype for message field " + f.name
		}
		b, ok := r.bytes()
		if !ok {
			return "proto: " + r.err
		}
		p := (*slot).(*value)
		if p == nil {
			z := zero(ut.Elem())
			p = &z
			*slot = p
		}
		return m.pbDecodeMsg(b, p, ut.Elem())
	case *types.Slice:
		switch et := ut.Elem().Underlying().(type) {
		case *types.Basic:
			if et.Kind() == types.Uint8 && f.wire == "bytes" && !f.rep {
				if wt != 2 {
					return "proto: bad wiretype for bytes field " + f.name
				}
				b, ok := r.bytes()
				if !ok {
					return "proto: " + r.err
				}
				*slot = cloneBytesNilEmpty(b)
				return ""
			}
			if et.Info()&types.IsString != 0 {
				b, ok := r.bytes()
				if !ok {
					return "proto: " + r.err
				}
				*slot = append((*slot).([]value), mkStr(b))
				return ""
			}
			if wt == 2 { // packed
				b, ok := r.bytes()
				if !ok {
					return "proto: " + r.err
				}
				rr := &pbReader{m: m, b: b}
				for rr.pos < len(rr.b) {
					v, err := m.pbDecodeScalarInto(rr, f.wire, wireNum(f.wire), ut.Elem())
					if err != "" {
						return err
					}
					*slot = append((*slot).([]value), v)
				}
				return ""
			}
			v, err := m.pbDecodeScalarInto(r, f.wire, wt, ut.Elem())
			if err != "" {
				return err
			}
			*slot = append((*slot).([]value), v)
		case *types.Pointer:
			b, ok := r.bytes()
			if !ok {
				return "proto: " + r.err
			}
			z := zero(et.Elem())
			p := &z
			if err := m.pbDecodeMsg(b, p, et.Elem()); err != "" {
				return err
			}
			*slot = append((*slot).([]value), p)
		case *types.Slice:
			b, ok := r.bytes()
			if !ok {
				return "proto: " + r.err
			}
			*slot = append((*slot).([]value), append([]value{}, b...))
		default:
			m.unsupported("protobuf repeated of " + ut.Elem().String())
		}
	case *types.Map:
		b, ok := r.bytes()
		if !ok {
			return "proto: " + r.err
		}
		mp := (*slot).(*Map)
		if mp == nil {
			mp = newMap(ut)
			*slot = mp
		}
		key := zero(ut.Key())
		val := zero(ut.Elem())
		kf := pbField{num: 1, wire: f.keyT, typ: ut.Key(), name: "key"}
		vf := pbField{num: 2, wire: f.valT, typ: ut.Elem(), name: "value"}
		rr := &pbReader{m: m, b: b}
		for rr.pos < len(rr.b) {
			tag, ok := rr.concVarint("protobuf tag")
			if !ok {
				return "proto: " + rr.err
			}
			switch int(tag >> 3) {
			case 1:
				if err := m.pbDecodeField(rr, kf, int(tag&7), &key); err != "" {
					return err
				}
			case 2:
				if err := m.pbDecodeField(rr, vf, int(tag&7), &val); err != "" {
					return err
				}
			default:
				if !rr.skip(int(tag & 7)) {
					return "proto: " + rr.err
				}
			}
		}
		if _, isBytes := ut.Elem().Underlying().(*types.Slice); isBytes {
			if val.([]value) == nil {
				val = []value{}
			}
		}
		mp.insert(m, key, val)
	default:
		m.unsupported("protobuf field type " + f.typ.String())
	}
	return ""
}

// ---------------------------------------------------------------- clone / reset / equal

func (m *machine) pbCloneMsg(p *value, t types.Type) *value {
	if p == nil {
		return nil
	}
	st := t.Underlying().(*types.Struct)
	s := (*p).(structure)
	z := zero(t)
	d := z.(structure)
	for _, f := range pbFields(st) {
		d[f.idx] = m.pbCloneVal(s[f.idx], f.typ)
	}
	return &z
}

func (m *machine) pbCloneVal(v value, t types.Type) value {
	switch ut := t.Underlying().(type) {
	case *types.Pointer:
		return m.pbCloneMsg(v.(*value), ut.Elem())
	case *types.Slice:
		sl := v.([]value)
		if len(sl) == 0 {
			return []value(nil)
		}
		out := make([]value, len(sl))
		if b, ok := ut.Elem().Underlying().(*types.Basic); ok && b.Kind() == types.Uint8 {
			copy(out, sl)
			return out
		}
		for i := range sl {
			if _, isBytes := ut.Elem().Underlying().(*types.Slice); isBytes {
				out[i] = append([]value{}, sl[i].([]value)...)
			} else {
				out[i] = m.pbCloneVal(sl[i], ut.Elem())
			}
		}
		return out
	case *types.Map:
		mp := v.(*Map)
		if mp == nil || len(mp.entries) == 0 {
			return (*Map)(nil)
		}
		n := newMap(ut)
		for _, e := range mp.entries {
			var cv value
			if _, isBytes := ut.Elem().Underlying().(*types.Slice); isBytes {
				cv = append([]value{}, e.val.([]value)...)
			} else {
				cv = m.pbCloneVal(e.val, ut.Elem())
			}
			n.insert(m, e.key, cv)
		}
		return n
	}
	return v
}

func msgArg(m *machine, a value) (*value, types.Type, bool) {
	it, ok := a.(iface)
	if !ok || it.t == nil {
		return nil, nil, false
	}
	pt, ok := it.t.Underlying().(*types.Pointer)
	if !ok {
		return nil, nil, false
	}
	p, _ := it.v.(*value)
	return p, pt.Elem(), true
}

func registerProto(e *engine) {
	pp := "github.com/golang/protobuf/proto."
	nop := func(fr *frame, fn *ssa.Function, a []value) value { return nil }
	for _, n := range []string{"RegisterType", "RegisterFile", "RegisterEnum", "RegisterMapType", "RegisterExtension"} {
		e.reg(pp+n, nop)
	}
	e.reg(pp+"Marshal", func(fr *frame, fn *ssa.Function, a []value) value {
		m := fr.m
		p, t, ok := msgArg(m, a[0])
		if !ok {
			return tuple{[]value(nil), m.mkError("proto: Marshal called with nil")}
		}
		if p == nil {
			return tuple{[]value(nil), m.mkError("proto: Marshal called with nil")}
		}
		return tuple{m.pbEncodeMsg(p, t), iface{}}
	})
	e.reg(pp+"Size", func(fr *frame, fn *ssa.Function, a []value) value {
		m := fr.m
		p, t, ok := msgArg(m, a[0])
		if !ok || p == nil {
			return 0
		}
		return len(m.pbEncodeMsg(p, t))
	})
	e.reg(pp+"Unmarshal", func(fr *frame, fn *ssa.Function, a []value) value {
		m := fr.m
		p, t, ok := msgArg(m, a[1])
		if !ok || p == nil {
			return m.mkError("proto: Unmarshal called with nil")
		}
		// reset then merge
		store(nil, p, zero(t))
		if err := m.pbDecodeMsg(a[0].([]value), p, t); err != "" {
			return m.mkError(err)
		}
		return iface{}
	})
	// xmodel.MarshalMessages / UnmsarshalMessages walk a []*Msg through reflection; modelled on the wire
	// format they produce: varint(count) followed by length-prefixed messages (proto.Buffer.EncodeMessage)
	xm := modPath + "/bcs/ledger/xledger/state/xmodel."
	e.reg(xm+"MarshalMessages", func(fr *frame, fn *ssa.Function, a []value) value {
		m := fr.m
		it, ok := a[0].(iface)
		if !ok || it.t == nil {
			return tuple{[]value(nil), iface{}}
		}
		sl, ok := it.t.Underlying().(*types.Slice)
		if !ok {
			return tuple{[]value(nil), m.mkError("bad slice type")}
		}
		pt, ok := sl.Elem().Underlying().(*types.Pointer)
		if !ok {
			return tuple{[]value(nil), m.mkError("elem of slice must be protobuf message")}
		}
		elems, _ := it.v.([]value)
		if len(elems) == 0 {
			return tuple{[]value(nil), iface{}}
		}
		out := pbLenBytes(len(elems))
		for _, el := range elems {
			p, _ := el.(*value)
			if p == nil {
				return tuple{[]value(nil), m.mkError("proto: Marshal called with nil")}
			}
			b := m.pbEncodeMsg(p, pt.Elem())
			out = append(out, pbLenBytes(len(b))...)
			out = append(out, b...)
		}
		return tuple{out, iface{}}
	})
	e.reg(xm+"UnmsarshalMessages", func(fr *frame, fn *ssa.Function, a []value) value {
		m := fr.m
		b, _ := a[0].([]value)
		if b == nil {
			return iface{}
		}
		it, ok := a[1].(iface)
		if !ok || it.t == nil {
			return m.mkError("must be slice ptr")
		}
		ppt, ok := it.t.Underlying().(*types.Pointer)
		if !ok {
			return m.mkError("must be slice ptr")
		}
		sl, ok := ppt.Elem().Underlying().(*types.Slice)
		if !ok {
			return m.mkError("must be slice ptr")
		}
		pt, ok := sl.Elem().Underlying().(*types.Pointer)
		if !ok {
			return m.mkError("elem of slice must be ptr type")
		}
		r := &pbReader{m: m, b: b}
		total, ok := r.concVarint("message count")
		if !ok {
			return m.mkError("error while read message length:" + r.err)
		}
		if total > uint64(len(b)) {
			total = uint64(len(b)) + 1 // every message takes at least its length byte: decoding fails below, as the real loop does
		}
		out := make([]value, 0, int(total))
		for i := 0; i < int(total); i++ {
			mb, ok := r.bytes()
			if !ok {
				return m.mkError("error while unmarshal message:" + r.err)
			}
			z := zero(pt.Elem())
			p := &z
			if err := m.pbDecodeMsg(mb, p, pt.Elem()); err != "" {
				return m.mkError("error while unmarshal message:" + err)
			}
			out = append(out, p)
		}
		dst := it.v.(*value)
		*dst = out
		return iface{}
	})
	e.reg(pp+"Clone", func(fr *frame, fn *ssa.Function, a []value) value {
		m := fr.m
		it := a[0].(iface)
		p, t, ok := msgArg(m, a[0])
		if !ok {
			return iface{}
		}
		return iface{t: it.t, v: m.pbCloneMsg(p, t)}
	})
	e.reg(pp+"Equal", func(fr *frame, fn *ssa.Function, a []value) value {
		m := fr.m
		p1, t1, ok1 := msgArg(m, a[0])
		p2, t2, ok2 := msgArg(m, a[1])
		if !ok1 || !ok2 {
			return ok1 == ok2
		}
		if !types.Identical(t1, t2) {
			return false
		}
		if p1 == nil || p2 == nil {
			return p1 == p2
		}
		return m.bytesEq(m.pbEncodeMsg(p1, t1), m.pbEncodeMsg(p2, t2))
	})
	e.reg(pp+"CompactTextString", func(fr *frame, fn *ssa.Function, a []value) value { return "<proto>" })
	e.reg(pp+"MarshalTextString", func(fr *frame, fn *ssa.Function, a []value) value { return "<proto>" })
}
