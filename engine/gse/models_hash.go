package main

import "sync"

type shaRec struct {
	stream []value
	digest []value
}

type crcRec struct {
	data []value
	sum  *Term
}

func registerHash(e *engine)   {}
func registerCodecs(e *engine) { registerProto(e) }

func newMutex() *sync.Mutex { return &sync.Mutex{} }
