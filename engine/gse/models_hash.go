package main

// SHA-256 as a collision-free function: concrete inputs are hashed for real;
// a (partly) symbolic input yields 32 fresh symbolic bytes and, against every
// other digest computed on the path, the axiom  digest1 = digest2  <=>
// stream1 = stream2  (<= is functionality, => is collision-freeness).
// CRC-32 (IEEE) likewise as an uninterpreted checksum with functionality and
// the burst axiom discharged separately (see models_crc.go).

import (
	"crypto/sha256"
	"fmt"
	"go/types"
	"math/big"
	"sync"

	"golang.org/x/tools/go/ssa"
)

type shaRec struct {
	stream []value
	digest []value
}

type crcRec struct {
	data []value
	sum  *Term
}

func registerCodecs(e *engine) { registerProto(e) }

func newMutex() *sync.Mutex { return &sync.Mutex{} }

func (m *machine) sha256Of(stream []value) []value {
	if cb, ok := concBytes(stream); ok {
		d := sha256.Sum256(cb)
		out := bytesToValues(d[:])
		m.models.shaDigests = append(m.models.shaDigests, &shaRec{stream: append([]value{}, stream...), digest: out})
		return append([]value{}, out...)
	}
	// functionality shortcut: identical stream terms
	for _, r := range m.models.shaDigests {
		if len(r.stream) == len(stream) {
			same := true
			for i := range stream {
				if !identicalVal(r.stream[i], stream[i]) {
					same = false
					break
				}
			}
			if same {
				return append([]value{}, r.digest...)
			}
		}
	}
	n := len(m.models.shaDigests)
	out := make([]value, 32)
	for i := range out {
		out[i] = m.newInternalInt(fmt.Sprintf("sha%d_%d", n, i), big.NewInt(0), big.NewInt(255))
	}
	rec := &shaRec{stream: append([]value{}, stream...), digest: out}
	for _, r := range m.models.shaDigests {
		deq := m.bytesEq(r.digest, out)
		var seq value = false
		if len(r.stream) == len(stream) {
			seq = m.bytesEq(r.stream, stream)
		}
		ax := m.ts.Eq(m.boolTerm(deq), m.boolTerm(seq))
		m.addPC(ax)
	}
	m.models.shaDigests = append(m.models.shaDigests, rec)
	m.models.shaSymbolic++
	return append([]value{}, out...)
}

func (m *machine) boolTerm(v value) *Term {
	switch x := v.(type) {
	case bool:
		return m.ts.Bool(x)
	case *Term:
		return x
	}
	panic(engineError{"boolTerm"})
}

// leBytes returns the little/big-endian bytes of an integer value of n bytes.
func (m *machine) intBytes(v value, t types.Type, n int, little bool) []value {
	out := make([]value, n)
	if tm, ok := v.(*Term); ok {
		k, _ := intInfo(t)
		u := m.unsignedRep(tm, k)
		for i := 0; i < n; i++ {
			b := m.ts.ModE(m.ts.DivE(u, pow2(8*i)), big.NewInt(256))
			var bv value = b
			if b.IsConst() {
				bv = uint8(b.Val.Int64())
			}
			if little {
				out[i] = bv
			} else {
				out[n-1-i] = bv
			}
		}
		return out
	}
	var u uint64
	if b, ok := v.(bool); ok {
		if b {
			u = 1
		}
	} else {
		u = asUint64(v)
	}
	for i := 0; i < n; i++ {
		b := uint8(u >> (8 * uint(i)))
		if little {
			out[i] = b
		} else {
			out[n-1-i] = b
		}
	}
	return out
}

func basicSize(t types.Type) int {
	if b, ok := t.Underlying().(*types.Basic); ok {
		switch b.Kind() {
		case types.Bool, types.Int8, types.Uint8:
			return 1
		case types.Int16, types.Uint16:
			return 2
		case types.Int32, types.Uint32, types.Float32:
			return 4
		case types.Int64, types.Uint64, types.Float64:
			return 8
		}
	}
	return 0
}

func registerHash(e *engine) {
	// sha256.New / Write / Sum / Reset, Sum256
	e.reg("crypto/sha256.New", func(fr *frame, fn *ssa.Function, a []value) value {
		pkg := fr.m.eng.prog.ImportedPackage("crypto/sha256")
		dt := pkg.Type("digest").Type()
		z := zero(dt)
		z.(structure)[0] = []value{}
		return iface{t: types.NewPointer(dt), v: &z}
	})
	e.reg("(*crypto/sha256.digest).Write", func(fr *frame, fn *ssa.Function, a []value) value {
		s := structOf(a[0])
		cur, _ := s[0].([]value)
		s[0] = append(append([]value{}, cur...), a[1].([]value)...)
		return tuple{len(a[1].([]value)), iface{}}
	})
	e.reg("(*crypto/sha256.digest).Sum", func(fr *frame, fn *ssa.Function, a []value) value {
		s := structOf(a[0])
		cur, _ := s[0].([]value)
		d := fr.m.sha256Of(cur)
		prefix, _ := a[1].([]value)
		return append(append([]value{}, prefix...), d...)
	})
	e.reg("(*crypto/sha256.digest).Reset", func(fr *frame, fn *ssa.Function, a []value) value {
		structOf(a[0])[0] = []value{}
		return nil
	})
	e.reg("(*crypto/sha256.digest).Size", func(fr *frame, fn *ssa.Function, a []value) value { return 32 })
	e.reg("(*crypto/sha256.digest).BlockSize", func(fr *frame, fn *ssa.Function, a []value) value { return 64 })
	e.reg("crypto/sha256.Sum256", func(fr *frame, fn *ssa.Function, a []value) value {
		d := fr.m.sha256Of(a[0].([]value))
		return array(d)
	})
	// the vendored helper package used by some callers
	e.reg("github.com/xuperchain/crypto/core/hash.UsingSha256", func(fr *frame, fn *ssa.Function, a []value) value {
		return fr.m.sha256Of(a[0].([]value))
	})
	e.reg("github.com/xuperchain/crypto/core/hash.DoubleSha256", func(fr *frame, fn *ssa.Function, a []value) value {
		return fr.m.sha256Of(fr.m.sha256Of(a[0].([]value)))
	})

	// encoding/binary
	binWrite := func(fr *frame, w iface, order iface, data iface) value {
		m := fr.m
		little := true
		if order.t != nil && types.TypeString(order.t, nil) == "encoding/binary.bigEndian" {
			little = false
		}
		var out []value
		var enc func(v value, t types.Type)
		enc = func(v value, t types.Type) {
			switch ut := t.Underlying().(type) {
			case *types.Basic:
				n := basicSize(t)
				if n == 0 {
					m.unsupported("binary.Write of " + t.String())
				}
				if _, isF := v.(float64); isF {
					m.unsupported("binary.Write of float")
				}
				out = append(out, m.intBytes(v, t, n, little)...)
			case *types.Slice:
				for _, x := range v.([]value) {
					enc(x, ut.Elem())
				}
			case *types.Array:
				for _, x := range v.(array) {
					enc(x, ut.Elem())
				}
			case *types.Pointer:
				p := v.(*value)
				if p == nil {
					m.unsupported("binary.Write of nil pointer")
				}
				enc(*p, ut.Elem())
			case *types.Struct:
				for i, x := range v.(structure) {
					enc(x, ut.Field(i).Type())
				}
			default:
				m.unsupported("binary.Write of " + t.String())
			}
		}
		if data.t == nil {
			return m.mkError("binary.Write: invalid type <nil>")
		}
		enc(data.v, data.t)
		wf := m.eng.prog.LookupMethod(w.t, nil, "Write")
		if wf == nil {
			m.unsupported("binary.Write to writer without Write")
		}
		r := call(m, fr, 0, wf, []value{w.v, out}).(tuple)
		return r[1]
	}
	e.reg("encoding/binary.Write", func(fr *frame, fn *ssa.Function, a []value) value {
		return binWrite(fr, a[0].(iface), a[1].(iface), a[2].(iface))
	})
	for _, ord := range []string{"littleEndian", "bigEndian"} {
		little := ord == "littleEndian"
		for _, sz := range []int{2, 4, 8} {
			sz := sz
			name := fmt.Sprintf("Uint%d", sz*8)
			e.reg("(encoding/binary."+ord+").Put"+name, func(fr *frame, fn *ssa.Function, a []value) value {
				b := a[1].([]value)
				if len(b) < sz {
					fr.m.runtimePanic("index out of range")
				}
				bs := fr.m.intBytes(a[2], fn.Signature.Params().At(1).Type(), sz, little)
				copy(b, bs)
				return nil
			})
			e.reg("(encoding/binary."+ord+")."+name, func(fr *frame, fn *ssa.Function, a []value) value {
				m := fr.m
				b := a[1].([]value)
				if len(b) < sz {
					m.runtimePanic("index out of range")
				}
				acc := m.ts.Int(0)
				for i := 0; i < sz; i++ {
					idx := i
					if !little {
						idx = sz - 1 - i
					}
					acc = m.ts.Add(acc, m.ts.Mul(m.termOf(b[idx]), m.ts.IntBig(pow2(8*i))))
				}
				rt := fn.Signature.Results().At(0).Type()
				return m.termVal2(acc, rt)
			})
		}
	}
}
