package main

// CRC-32 (IEEE) as an uninterpreted checksum with two axioms against every
// other checksum computed on the path:
//   functionality:  equal streams  => equal sums
//   burst:          streams of equal length that differ only inside a window of
//                   at most 32 consecutive bits (bit order of the code: least
//                   significant bit of each byte first) have different sums
// The burst axiom is the textbook property of a degree-32 generator with
// non-zero constant term; the driver discharges its three bit-level lemmas
// (per-byte linearity, zero-step injectivity, a non-zero window of <= 32 bits
// leaves a non-zero register) with the solver on every run (check: lemma
// "crc32-burst"). Concrete inputs are summed for real.

import (
	"fmt"
	"go/types"
	"hash/crc32"
	"math/big"

	"golang.org/x/tools/go/ssa"
)

func (m *machine) crc32Of(data []value) value {
	if cb, ok := concBytes(data); ok {
		s := crc32.ChecksumIEEE(cb)
		m.models.crcRecs = append(m.models.crcRecs, &crcRec{data: append([]value{}, data...), sum: m.ts.Int(int64(s))})
		return s
	}
	for _, r := range m.models.crcRecs {
		if len(r.data) == len(data) {
			same := true
			for i := range data {
				if !identicalVal(r.data[i], data[i]) {
					same = false
					break
				}
			}
			if same {
				return m.termVal2(r.sum, types.Typ[types.Uint32])
			}
		}
	}
	ts := m.ts
	n := len(m.models.crcRecs)
	sum := m.newInternalInt(fmt.Sprintf("crc%d", n), big.NewInt(0), big.NewInt(1<<32-1))
	for _, r := range m.models.crcRecs {
		if len(r.data) != len(data) {
			continue
		}
		crcEq := ts.Eq(r.sum, sum)
		streamEq := m.boolTerm(m.bytesEq(r.data, data))
		// positions whose terms are not syntactically identical
		lo, hi := -1, -1
		for i := range data {
			if !identicalVal(r.data[i], data[i]) {
				if lo < 0 {
					lo = i
				}
				hi = i
			}
		}
		switch {
		case hi-lo <= 3:
			// every difference lies inside 32 bits: detected
			m.addPC(ts.Eq(crcEq, streamEq))
		case hi-lo == 4:
			// 33..40 bit span: a burst of <= 32 bits iff, for some s in 1..7, the low s bits of the first
			// and the high 8-s bits of the last differing byte agree
			m.addPC(ts.Implies(streamEq, crcEq))
			a0, b0 := m.termOf(r.data[lo]), m.termOf(data[lo])
			a4, b4 := m.termOf(r.data[hi]), m.termOf(data[hi])
			var within []*Term
			for s := 1; s <= 7; s++ {
				p := big.NewInt(1 << uint(s))
				within = append(within, ts.And(ts.Eq(ts.ModE(a0, p), ts.ModE(b0, p)), ts.Eq(ts.DivE(a4, p), ts.DivE(b4, p))))
			}
			w := within[0]
			for _, x := range within[1:] {
				w = ts.Or(w, x)
			}
			m.addPC(ts.Implies(ts.And(w, crcEq), streamEq))
		default:
			m.addPC(ts.Implies(streamEq, crcEq))
		}
	}
	m.models.crcRecs = append(m.models.crcRecs, &crcRec{data: append([]value{}, data...), sum: sum})
	m.models.crcSymbolic++
	return sum
}

func registerCRC(e *engine) {
	// tables are opaque: only ChecksumIEEE is modelled; a table-driven call would be reported as unsupported
	e.reg("hash/crc32.MakeTable", func(fr *frame, fn *ssa.Function, a []value) value {
		z := zero(deref(fn.Signature.Results().At(0).Type()))
		return &z
	})
	e.reg("hash/crc32.ChecksumIEEE", func(fr *frame, fn *ssa.Function, a []value) value {
		return fr.m.crc32Of(a[0].([]value))
	})
}
