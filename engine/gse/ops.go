package main

import (
	"fmt"
	"go/constant"
	"go/token"
	"go/types"
	"math"
	"math/big"
	"os"
	"unicode/utf8"
	"unsafe"

	"golang.org/x/tools/go/ssa"
)

func constValue(c *ssa.Const) value {
	if c.Value == nil {
		return zero(c.Type())
	}
	if t, ok := c.Type().Underlying().(*types.Basic); ok {
		switch t.Kind() {
		case types.Bool, types.UntypedBool:
			return constant.BoolVal(c.Value)
		case types.Float32:
			return float32(c.Float64())
		case types.Float64, types.UntypedFloat:
			return c.Float64()
		case types.Complex64:
			return complex64(c.Complex128())
		case types.Complex128, types.UntypedComplex:
			return c.Complex128()
		case types.String, types.UntypedString:
			if c.Value.Kind() == constant.String {
				return constant.StringVal(c.Value)
			}
			return string(rune(c.Int64()))
		}
		if k, ok := intInfo(t); ok {
			if k.signed {
				return fromInt64(k.kind, c.Int64())
			}
			return fromUint64(k.kind, c.Uint64())
		}
	}
	panic(engineError{fmt.Sprintf("constValue: %s", c)})
}

// ---------------------------------------------------------------- symbolic integer helpers

// termOf lifts an integer or bool value to a term.
func (m *machine) termOf(v value) *Term {
	switch v := v.(type) {
	case *Term:
		return v
	case bool:
		return m.ts.Bool(v)
	}
	return m.ts.IntBig(bigOf(v))
}

var two = big.NewInt(2)

func pow2(n int) *big.Int { return new(big.Int).Lsh(big.NewInt(1), uint(n)) }

// wrap reduces a mathematical integer term into the range of kind k.
func (m *machine) wrap(t *Term, k intKind) *Term {
	if t.Lo != nil && t.Hi != nil && t.Lo.Cmp(k.min()) >= 0 && t.Hi.Cmp(k.max()) <= 0 {
		return t
	}
	mod := pow2(k.bits)
	if !k.signed {
		return m.ts.ModE(t, mod)
	}
	half := pow2(k.bits - 1)
	return m.ts.Sub(m.ts.ModE(m.ts.Add(t, m.ts.IntBig(half)), mod), m.ts.IntBig(half))
}

// unsignedRep maps a value of kind k to its unsigned bit pattern in [0,2^bits).
func (m *machine) unsignedRep(t *Term, k intKind) *Term {
	if !k.signed || (t.Lo != nil && t.Lo.Sign() >= 0) {
		return t
	}
	return m.ts.Ite(m.ts.Lt(t, m.ts.Int(0)), m.ts.Add(t, m.ts.IntBig(pow2(k.bits))), t)
}

func (m *machine) fromUnsignedRep(t *Term, k intKind) *Term {
	if !k.signed {
		return t
	}
	if t.Hi != nil && t.Hi.Cmp(k.max()) <= 0 {
		return t
	}
	return m.ts.Ite(m.ts.Le(m.ts.IntBig(pow2(k.bits-1)), t), m.ts.Sub(t, m.ts.IntBig(pow2(k.bits))), t)
}

// truncDiv encodes Go's truncated division/remainder by a non-zero constant.
func (m *machine) truncDivMod(a *Term, d *big.Int) (q, r *Term) {
	ts := m.ts
	ad := new(big.Int).Abs(d)
	nonneg := a.Lo != nil && a.Lo.Sign() >= 0
	if !nonneg && !m.spec && !a.IsConst() {
		// ask the solver whether the dividend can be negative on this path
		if v, ok := m.nonnegCache[a]; ok {
			nonneg = v
		} else {
			nonneg = m.check(ts.Lt(a, ts.Int(0))) == Unsat
			if m.nonnegCache == nil {
				m.nonnegCache = map[*Term]bool{}
			}
			m.nonnegCache[a] = nonneg
		}
	}
	var qabs *Term // |a| div |d|
	if nonneg {
		qabs = ts.DivE(a, ad)
		if d.Sign() < 0 {
			q = ts.Neg(qabs)
		} else {
			q = qabs
		}
		r = ts.ModE(a, ad)
		return
	}
	neg := ts.Lt(a, ts.Int(0))
	na := ts.Neg(a)
	qpos := ts.DivE(a, ad)
	qneg := ts.Neg(ts.DivE(na, ad))
	qq := ts.Ite(neg, qneg, qpos)
	if d.Sign() < 0 {
		qq = ts.Neg(qq)
	}
	q = qq
	r = ts.Ite(neg, ts.Neg(ts.ModE(na, ad)), ts.ModE(a, ad))
	return
}

func (m *machine) symBinop(op token.Token, t types.Type, x, y value) value {
	ts := m.ts
	// booleans
	if b, ok := t.Underlying().(*types.Basic); ok && b.Info()&types.IsBoolean != 0 {
		a, c := m.termOf(x), m.termOf(y)
		switch op {
		case token.EQL:
			return ts.Eq(a, c)
		case token.NEQ:
			return ts.Not(ts.Eq(a, c))
		case token.LAND:
			return ts.And(a, c)
		case token.LOR:
			return ts.Or(a, c)
		}
		panic(engineError{"symBinop bool op " + op.String()})
	}
	k, ok := intInfo(t)
	if !ok {
		m.unsupported(fmt.Sprintf("symbolic binop %s on %s", op, t))
	}
	// shifts: the shift count has its own type; handle before lifting y
	if op == token.SHL || op == token.SHR {
		var n int64
		if yt, ok := y.(*Term); ok {
			n = m.concInt(yt, "shift count")
		} else {
			if isSignedVal(y) && asInt64(y) < 0 {
				m.runtimePanic("negative shift amount")
			}
			u := asUint64(y)
			if u > 128 {
				u = 128
			}
			n = int64(u)
		}
		a := m.termOf(x)
		if n >= int64(k.bits) {
			if op == token.SHL || !k.signed {
				return ts.Int(0)
			}
			return ts.Ite(ts.Lt(a, ts.Int(0)), ts.Int(-1), ts.Int(0))
		}
		if op == token.SHL {
			return m.wrap(ts.Mul(a, ts.IntBig(pow2(int(n)))), k)
		}
		return ts.DivE(a, pow2(int(n)))
	}
	a, b := m.termOf(x), m.termOf(y)
	switch op {
	case token.ADD:
		return m.wrap(ts.Add(a, b), k)
	case token.SUB:
		return m.wrap(ts.Sub(a, b), k)
	case token.MUL:
		if !a.IsConst() && !b.IsConst() {
			// make one side concrete
			if rangeSize(b) <= rangeSize(a) {
				b = ts.IntBig(m.concretize(b, "multiplier"))
			} else {
				a = ts.IntBig(m.concretize(a, "multiplier"))
			}
		}
		return m.wrap(ts.Mul(a, b), k)
	case token.QUO, token.REM:
		if !b.IsConst() {
			b = ts.IntBig(m.concretize(b, "divisor"))
		}
		if b.Val.Sign() == 0 {
			m.runtimePanic("integer divide by zero")
		}
		q, r := m.truncDivMod(a, b.Val)
		if op == token.QUO {
			return m.wrap(q, k)
		}
		return r
	case token.AND, token.OR, token.XOR, token.AND_NOT:
		// cheap special cases: and with low mask
		if op == token.AND {
			for _, p := range [][2]*Term{{a, b}, {b, a}} {
				if p[1].IsConst() && p[1].Val.Sign() >= 0 {
					mk := new(big.Int).Add(p[1].Val, big.NewInt(1))
					if mk.BitLen() > 0 && new(big.Int).And(mk, p[1].Val).Sign() == 0 { // mask = 2^j-1
						u := m.unsignedRep(p[0], k)
						return ts.ModE(u, mk)
					}
				}
			}
		}
		ua, ub := m.unsignedRep(a, k), m.unsignedRep(b, k)
		// and with a constant contiguous run of bits 2^j*(2^w-1)
		if op == token.AND {
			for _, p := range [][2]*Term{{ua, ub}, {ub, ua}} {
				if j, w, ok := bitRun(p[1]); ok {
					r := ts.Mul(ts.ModE(ts.DivE(p[0], pow2(j)), pow2(w)), ts.IntBig(pow2(j)))
					return m.fromUnsignedRep(r, k)
				}
			}
		}
		// or / xor of operands with provably disjoint bits is addition
		if op == token.OR || op == token.XOR {
			for _, p := range [][2]*Term{{ua, ub}, {ub, ua}} {
				if p[0].Lo != nil && p[0].Lo.Sign() >= 0 && p[0].Hi != nil {
					j := p[0].Hi.BitLen()
					if multipleOfPow2(p[1], j) {
						return m.fromUnsignedRep(ts.Add(p[0], p[1]), k)
					}
				}
			}
		}
		var r *Term
		switch op {
		case token.AND:
			r = ts.BvBin("bvand", k.bits, ua, ub)
		case token.OR:
			r = ts.BvBin("bvor", k.bits, ua, ub)
		case token.XOR:
			r = ts.BvBin("bvxor", k.bits, ua, ub)
		case token.AND_NOT:
			nb := ts.Sub(ts.IntBig(new(big.Int).Sub(pow2(k.bits), big.NewInt(1))), ub)
			r = ts.BvBin("bvand", k.bits, ua, nb)
		}
		return m.fromUnsignedRep(r, k)
	case token.EQL:
		return ts.Eq(a, b)
	case token.NEQ:
		return ts.Not(ts.Eq(a, b))
	case token.LSS:
		return ts.Lt(a, b)
	case token.LEQ:
		return ts.Le(a, b)
	case token.GTR:
		return ts.Lt(b, a)
	case token.GEQ:
		return ts.Le(b, a)
	}
	panic(engineError{"symBinop: op " + op.String()})
}

func rangeSize(t *Term) float64 {
	if t.Lo == nil || t.Hi == nil {
		return math.Inf(1)
	}
	f, _ := new(big.Float).SetInt(new(big.Int).Sub(t.Hi, t.Lo)).Float64()
	return f
}

func hasTerm(v value) bool {
	switch v.(type) {
	case *Term, *SymStr:
		return true
	}
	return false
}

// ---------------------------------------------------------------- binop

func binop(m *machine, op token.Token, t types.Type, x, y value) value {
	if _, ok := x.(*SymFloat); ok {
		return m.symFloatBinop(op, x, y)
	}
	if _, ok := y.(*SymFloat); ok {
		return m.symFloatBinop(op, x, y)
	}
	if op == token.EQL || op == token.NEQ {
		r := eqnil(m, t, x, y)
		if op == token.NEQ {
			return m.notVal(r)
		}
		return r
	}
	_, xs := x.(*Term)
	_, ys := y.(*Term)
	if xs || ys {
		return m.symBinop(op, t, x, y)
	}
	if isStr(x) {
		return m.strBinop(op, x, y)
	}
	switch xv := x.(type) {
	case bool:
		panic(engineError{"bool binop " + op.String()})
	case float64:
		yv := y.(float64)
		switch op {
		case token.ADD:
			return xv + yv
		case token.SUB:
			return xv - yv
		case token.MUL:
			return xv * yv
		case token.QUO:
			return xv / yv
		case token.LSS:
			return xv < yv
		case token.LEQ:
			return xv <= yv
		case token.GTR:
			return xv > yv
		case token.GEQ:
			return xv >= yv
		}
	case float32:
		yv := y.(float32)
		switch op {
		case token.ADD:
			return xv + yv
		case token.SUB:
			return xv - yv
		case token.MUL:
			return xv * yv
		case token.QUO:
			return xv / yv
		case token.LSS:
			return xv < yv
		case token.LEQ:
			return xv <= yv
		case token.GTR:
			return xv > yv
		case token.GEQ:
			return xv >= yv
		}
	case complex128:
		yv := y.(complex128)
		switch op {
		case token.ADD:
			return xv + yv
		case token.SUB:
			return xv - yv
		case token.MUL:
			return xv * yv
		case token.QUO:
			return xv / yv
		}
	}
	if !isInteger(x) {
		panic(engineError{fmt.Sprintf("invalid binary op: %T %s %T", x, op, y)})
	}
	k, _ := intInfo(t)
	if k.bits == 0 {
		// operand type from dynamic value
		k = kindOfVal(x)
	}
	if op == token.SHL || op == token.SHR {
		if isSignedVal(y) && asInt64(y) < 0 {
			m.runtimePanic("negative shift amount")
		}
		n := asUint64(y)
		if k.signed {
			a := asInt64(x)
			if op == token.SHL {
				if n >= 64 {
					return fromInt64(k.kind, 0)
				}
				return fromInt64(k.kind, a<<n)
			}
			if n >= 64 {
				n = 63
			}
			return fromInt64(k.kind, a>>n)
		}
		a := asUint64(x)
		if n >= 64 {
			return fromUint64(k.kind, 0)
		}
		if op == token.SHL {
			return fromUint64(k.kind, a<<n)
		}
		return fromUint64(k.kind, a>>n)
	}
	if k.signed {
		a, b := asInt64(x), asInt64(y)
		switch op {
		case token.ADD:
			return fromInt64(k.kind, a+b)
		case token.SUB:
			return fromInt64(k.kind, a-b)
		case token.MUL:
			return fromInt64(k.kind, a*b)
		case token.QUO:
			if b == 0 {
				m.runtimePanic("integer divide by zero")
			}
			if b == -1 {
				return fromInt64(k.kind, -a)
			}
			return fromInt64(k.kind, a/b)
		case token.REM:
			if b == 0 {
				m.runtimePanic("integer divide by zero")
			}
			if b == -1 {
				return fromInt64(k.kind, 0)
			}
			return fromInt64(k.kind, a%b)
		case token.AND:
			return fromInt64(k.kind, a&b)
		case token.OR:
			return fromInt64(k.kind, a|b)
		case token.XOR:
			return fromInt64(k.kind, a^b)
		case token.AND_NOT:
			return fromInt64(k.kind, a&^b)
		case token.LSS:
			return a < b
		case token.LEQ:
			return a <= b
		case token.GTR:
			return a > b
		case token.GEQ:
			return a >= b
		}
	} else {
		a, b := asUint64(x), asUint64(y)
		switch op {
		case token.ADD:
			return fromUint64(k.kind, a+b)
		case token.SUB:
			return fromUint64(k.kind, a-b)
		case token.MUL:
			return fromUint64(k.kind, a*b)
		case token.QUO:
			if b == 0 {
				m.runtimePanic("integer divide by zero")
			}
			return fromUint64(k.kind, a/b)
		case token.REM:
			if b == 0 {
				m.runtimePanic("integer divide by zero")
			}
			return fromUint64(k.kind, a%b)
		case token.AND:
			return fromUint64(k.kind, a&b)
		case token.OR:
			return fromUint64(k.kind, a|b)
		case token.XOR:
			return fromUint64(k.kind, a^b)
		case token.AND_NOT:
			return fromUint64(k.kind, a&^b)
		case token.LSS:
			return a < b
		case token.LEQ:
			return a <= b
		case token.GTR:
			return a > b
		case token.GEQ:
			return a >= b
		}
	}
	panic(engineError{fmt.Sprintf("invalid binary op: %T %s %T", x, op, y)})
}

func kindOfVal(x value) intKind {
	switch x.(type) {
	case int:
		return intKind{64, true, types.Int}
	case int8:
		return intKind{8, true, types.Int8}
	case int16:
		return intKind{16, true, types.Int16}
	case int32:
		return intKind{32, true, types.Int32}
	case int64:
		return intKind{64, true, types.Int64}
	case uint:
		return intKind{64, false, types.Uint}
	case uint8:
		return intKind{8, false, types.Uint8}
	case uint16:
		return intKind{16, false, types.Uint16}
	case uint32:
		return intKind{32, false, types.Uint32}
	case uint64:
		return intKind{64, false, types.Uint64}
	case uintptr:
		return intKind{64, false, types.Uintptr}
	}
	panic(engineError{fmt.Sprintf("kindOfVal %T", x)})
}

func (m *machine) notVal(v value) value {
	switch v := v.(type) {
	case bool:
		return !v
	case *Term:
		return m.ts.Not(v)
	}
	panic(engineError{"notVal"})
}

func (m *machine) andVal(a, b value) value {
	if x, ok := a.(bool); ok {
		if !x {
			return false
		}
		return b
	}
	if y, ok := b.(bool); ok {
		if !y {
			return false
		}
		return a
	}
	return m.ts.And(a.(*Term), b.(*Term))
}

func (m *machine) orVal(a, b value) value {
	return m.notVal(m.andVal(m.notVal(a), m.notVal(b)))
}

// ---------------------------------------------------------------- strings

// strEq returns the equality of two strings as bool or *Term.
func (m *machine) strEq(x, y value) value {
	if a, ok := x.(string); ok {
		if b, ok := y.(string); ok {
			return a == b
		}
	}
	if strLen(x) != strLen(y) {
		return false
	}
	return m.bytesEq(strBytes(x), strBytes(y))
}

func (m *machine) bytesEq(a, b []value) value {
	if len(a) != len(b) {
		return false
	}
	var conj []*Term
	for i := range a {
		at, as := a[i].(*Term)
		bt, bs := b[i].(*Term)
		if !as && !bs {
			if a[i].(uint8) != b[i].(uint8) {
				return false
			}
			continue
		}
		if !as {
			at = m.ts.Int(int64(a[i].(uint8)))
		}
		if !bs {
			bt = m.ts.Int(int64(b[i].(uint8)))
		}
		e := m.ts.Eq(at, bt)
		if e.IsFalse() {
			return false
		}
		conj = append(conj, e)
	}
	if len(conj) == 0 {
		return true
	}
	return m.ts.And(conj...)
}

// bytesLess returns a<b lexicographically as bool or *Term.
func (m *machine) bytesCmpLess(a, b []value, orEqual bool) value {
	// build from the end: less(i) = a[i]<b[i] || (a[i]==b[i] && less(i+1))
	n := len(a)
	if len(b) < n {
		n = len(b)
	}
	var tail value
	if len(a) < len(b) {
		tail = true
	} else if len(a) == len(b) {
		tail = orEqual
	} else {
		tail = false
	}
	for i := n - 1; i >= 0; i-- {
		ai, bi := m.termOf(a[i]), m.termOf(b[i])
		lt := m.termVal(m.ts.Lt(ai, bi))
		eq := m.termVal(m.ts.Eq(ai, bi))
		tail = m.orVal(lt, m.andVal(eq, tail))
	}
	return tail
}

func (m *machine) termVal(t *Term) value {
	if t.IsTrue() {
		return true
	}
	if t.IsFalse() {
		return false
	}
	return t
}

func (m *machine) strBinop(op token.Token, x, y value) value {
	xs, xok := x.(string)
	ys, yok := y.(string)
	if xok && yok {
		switch op {
		case token.ADD:
			return xs + ys
		case token.LSS:
			return xs < ys
		case token.LEQ:
			return xs <= ys
		case token.GTR:
			return xs > ys
		case token.GEQ:
			return xs >= ys
		}
	}
	switch op {
	case token.ADD:
		return mkStr(append(strBytes(x), strBytes(y)...))
	case token.LSS:
		return m.bytesCmpLess(strBytes(x), strBytes(y), false)
	case token.LEQ:
		return m.bytesCmpLess(strBytes(x), strBytes(y), true)
	case token.GTR:
		return m.bytesCmpLess(strBytes(y), strBytes(x), false)
	case token.GEQ:
		return m.bytesCmpLess(strBytes(y), strBytes(x), true)
	}
	panic(engineError{"strBinop " + op.String()})
}

// ---------------------------------------------------------------- equality

func sameType(x, y types.Type) bool {
	if x == nil {
		return y == nil
	}
	return y != nil && types.Identical(x, y)
}

// equals returns x == y (bool or *Term) for comparable type t.
func equals(m *machine, t types.Type, x, y value) value {
	switch xv := x.(type) {
	case *Term:
		return m.termVal(m.ts.Eq(xv, m.termOf(y)))
	case string, *SymStr:
		return m.strEq(x, y)
	case *value:
		return xv == y.(*value)
	case *Chan:
		return xv == y.(*Chan)
	case structure:
		yv := y.(structure)
		st := t.Underlying().(*types.Struct)
		var acc value = true
		for i := 0; i < st.NumFields(); i++ {
			if st.Field(i).Name() == "_" {
				continue
			}
			acc = m.andVal(acc, equals(m, st.Field(i).Type(), xv[i], yv[i]))
			if b, ok := acc.(bool); ok && !b {
				return false
			}
		}
		return acc
	case array:
		yv := y.(array)
		et := t.Underlying().(*types.Array).Elem()
		var acc value = true
		for i := range xv {
			acc = m.andVal(acc, equals(m, et, xv[i], yv[i]))
			if b, ok := acc.(bool); ok && !b {
				return false
			}
		}
		return acc
	case iface:
		yv := y.(iface)
		if !sameType(xv.t, yv.t) {
			return false
		}
		if xv.t == nil {
			return true
		}
		if !types.Comparable(xv.t) {
			m.runtimePanic("runtime error: comparing uncomparable type " + xv.t.String())
		}
		return equals(m, xv.t, xv.v, yv.v)
	case bool:
		if yt, ok := y.(*Term); ok {
			return m.termVal(m.ts.Eq(m.ts.Bool(xv), yt))
		}
		return xv == y.(bool)
	case unsafe.Pointer:
		return xv == y.(unsafe.Pointer)
	case float32, float64, complex64, complex128:
		return x == y
	}
	if isInteger(x) {
		if yt, ok := y.(*Term); ok {
			return m.termVal(m.ts.Eq(m.termOf(x), yt))
		}
		return x == y
	}
	if x == nil && y == nil {
		return true
	}
	panic(engineError{fmt.Sprintf("comparing uncomparable type %s (%T)", t, x)})
}

func isNilRef(x value) bool {
	switch x := x.(type) {
	case *Map:
		return x == nil
	case []value:
		return x == nil
	case *ssa.Function:
		return x == nil
	case *closure:
		return x == nil
	case *nativeFunc:
		return x == nil
	}
	return false
}

func eqnil(m *machine, t types.Type, x, y value) value {
	switch t.Underlying().(type) {
	case *types.Map, *types.Signature, *types.Slice:
		return isNilRef(x) == isNilRef(y)
	}
	return equals(m, t, x, y)
}

// ---------------------------------------------------------------- unop

func unop(fr *frame, instr *ssa.UnOp, x value) value {
	m := fr.m
	switch instr.Op {
	case token.ARROW:
		return chanRecv(fr, x.(*Chan), instr.CommaOk, instr.X.Type().Underlying().(*types.Chan).Elem())
	case token.MUL:
		p := x.(*value)
		if p == nil {
			m.runtimePanic("invalid memory address or nil pointer dereference")
		}
		m.sharedAccess(fr, p, false)
		return copyVal(*p)
	case token.NOT:
		return m.notVal(x)
	case token.SUB:
		switch xv := x.(type) {
		case *SymFloat:
			return &SymFloat{num: m.ts.Neg(xv.num), den: xv.den}
		case *Term:
			k, _ := intInfo(instr.X.Type())
			return m.wrap(m.ts.Neg(xv), k)
		case float32:
			return -xv
		case float64:
			return -xv
		case complex64:
			return -xv
		case complex128:
			return -xv
		}
		k := kindOfVal(x)
		return fromInt64(k.kind, -asInt64(x))
	case token.XOR:
		if xv, ok := x.(*Term); ok {
			k, _ := intInfo(instr.X.Type())
			if k.signed {
				return m.ts.Sub(m.ts.Neg(xv), m.ts.Int(1))
			}
			return m.ts.Sub(m.ts.IntBig(k.max()), xv)
		}
		k := kindOfVal(x)
		return fromInt64(k.kind, ^asInt64(x))
	}
	panic(engineError{fmt.Sprintf("invalid unary op %s %T", instr.Op, x)})
}

// ---------------------------------------------------------------- type assertions

func typeAssert(m *machine, instr *ssa.TypeAssert, itf iface) value {
	var v value
	err := ""
	if itf.t == nil {
		err = fmt.Sprintf("interface conversion: interface is nil, not %s", instr.AssertedType)
	} else if idst, ok := instr.AssertedType.Underlying().(*types.Interface); ok {
		v = itf
		if meth, _ := types.MissingMethod(itf.t, idst, true); meth != nil {
			err = fmt.Sprintf("interface conversion: %v is not %v: missing method %s", itf.t, idst, meth.Name())
		}
	} else if types.Identical(itf.t, instr.AssertedType) {
		v = itf.v
	} else {
		err = fmt.Sprintf("interface conversion: interface is %s, not %s", itf.t, instr.AssertedType)
	}
	if err != "" {
		if !instr.CommaOk {
			m.runtimePanic(err)
		}
		return tuple{zero(instr.AssertedType), false}
	}
	if instr.CommaOk {
		return tuple{v, true}
	}
	return v
}

// ---------------------------------------------------------------- slices

func sliceOp(fr *frame, instr *ssa.Slice, x, lo, hi, max value) value {
	m := fr.m
	var Len, Cap int
	switch x := x.(type) {
	case string:
		Len = len(x)
		Cap = Len
	case *SymStr:
		Len = len(x.b)
		Cap = Len
	case []value:
		Len = len(x)
		Cap = cap(x)
	case *value:
		if x == nil {
			m.runtimePanic("invalid memory address or nil pointer dereference")
		}
		a := (*x).(array)
		Len = len(a)
		Cap = cap(a)
	}
	l := int64(0)
	if lo != nil {
		l = m.concInt(lo, "slice low")
	}
	h := int64(Len)
	if hi != nil {
		h = m.concInt(hi, "slice high")
	}
	mx := int64(Cap)
	if max != nil {
		mx = m.concInt(max, "slice max")
	}
	if l < 0 || h < l || mx < h || mx > int64(Cap) {
		m.runtimePanic(fmt.Sprintf("slice bounds out of range [%d:%d:%d] with capacity %d", l, h, mx, Cap))
	}
	switch x := x.(type) {
	case string:
		if h > int64(Len) {
			m.runtimePanic("slice bounds out of range")
		}
		return x[l:h]
	case *SymStr:
		if h > int64(Len) {
			m.runtimePanic("slice bounds out of range")
		}
		return mkStr(x.b[l:h])
	case []value:
		if x == nil {
			return x
		}
		return x[l:h:mx]
	case *value:
		a := (*x).(array)
		return []value(a)[l:h:mx]
	}
	panic(engineError{fmt.Sprintf("slice: unexpected X type: %T", x)})
}

// lookup returns x[idx] for a map.
func lookup(fr *frame, instr *ssa.Lookup, x, idx value) value {
	m := fr.m
	switch x := x.(type) {
	case *Map:
		var v value
		ok := false
		if x != nil {
			m.sharedAccess(fr, x, false)
			if e := x.find(m, idx, false); e != nil {
				v, ok = copyVal(e.val), true
			}
		}
		if !ok {
			v = zero(instr.X.Type().Underlying().(*types.Map).Elem())
		}
		if instr.CommaOk {
			return tuple{v, ok}
		}
		return v
	case string:
		return x[m.index(idx, len(x))]
	case *SymStr:
		return x.b[m.index(idx, len(x.b))]
	}
	panic(engineError{fmt.Sprintf("unexpected x type in Lookup: %T", x)})
}

// ---------------------------------------------------------------- builtins

func callBuiltin(caller *frame, callpos token.Pos, fn *ssa.Builtin, args []value) value {
	m := caller.m
	switch fn.Name() {
	case "append":
		if len(args) == 1 {
			return args[0]
		}
		if isStr(args[1]) {
			return append(args[0].([]value), strBytes(args[1])...)
		}
		src := args[1].([]value)
		dst := args[0].([]value)
		if len(src) == 0 {
			return dst
		}
		cp := make([]value, len(src))
		for i := range src {
			cp[i] = copyVal(src[i])
		}
		return append(dst, cp...)

	case "copy":
		var src []value
		if isStr(args[1]) {
			src = strBytes(args[1])
		} else {
			src = args[1].([]value)
		}
		dst := args[0].([]value)
		n := len(dst)
		if len(src) < n {
			n = len(src)
		}
		tmp := make([]value, n)
		for i := 0; i < n; i++ {
			tmp[i] = copyVal(src[i])
		}
		copy(dst, tmp)
		return n

	case "close":
		chanClose(caller, args[0].(*Chan))
		return nil

	case "delete":
		mp := args[0].(*Map)
		if mp != nil {
			m.sharedAccess(caller, mp, true)
			mp.delete(m, args[1])
		}
		return nil

	case "print", "println":
		for i, a := range args {
			if i > 0 {
				fmt.Fprint(os.Stderr, " ")
			}
			fmt.Fprint(os.Stderr, toString(a))
		}
		fmt.Fprintln(os.Stderr)
		return nil

	case "len":
		switch x := args[0].(type) {
		case string:
			return len(x)
		case *SymStr:
			return len(x.b)
		case array:
			return len(x)
		case *value:
			return len((*x).(array))
		case []value:
			return len(x)
		case *Map:
			if x == nil {
				return 0
			}
			m.sharedAccess(caller, x, false)
			return len(x.entries)
		case *Chan:
			if x == nil {
				return 0
			}
			return len(x.buf)
		default:
			panic(engineError{fmt.Sprintf("len: illegal operand: %T", x)})
		}

	case "cap":
		switch x := args[0].(type) {
		case array:
			return cap(x)
		case *value:
			return cap((*x).(array))
		case []value:
			return cap(x)
		case *Chan:
			if x == nil {
				return 0
			}
			return x.cap
		default:
			panic(engineError{fmt.Sprintf("cap: illegal operand: %T", x)})
		}

	case "min", "max":
		sig := fn.Type().(*types.Signature)
		t := sig.Params().At(0).Type()
		acc := args[0]
		for _, a := range args[1:] {
			var lt value
			if fn.Name() == "min" {
				lt = binop(m, token.LSS, t, a, acc)
			} else {
				lt = binop(m, token.GTR, t, a, acc)
			}
			if m.truth(lt) {
				acc = a
			}
		}
		return acc

	case "panic":
		panic(targetPanic{args[0]})

	case "recover":
		return doRecover(caller)

	case "ssa:wrapnilchk":
		recv := args[0]
		if recv.(*value) == nil {
			m.runtimePanic(fmt.Sprintf("value method %s.%s called using nil pointer", toString(args[1]), toString(args[2])))
		}
		return recv

	case "ssa:deferstack":
		return &caller.defers
	}
	panic(engineError{"unknown built-in: " + fn.Name()})
}

// ---------------------------------------------------------------- range

type stringIter struct {
	b []value
	i int
}

func (it *stringIter) next(fr *frame) tuple {
	if it.i >= len(it.b) {
		return tuple{false, nil, nil}
	}
	// decode one rune; symbolic bytes are assumed ASCII-classified by a split
	c := it.b[it.i]
	if t, ok := c.(*Term); ok {
		if fr.m.decide(fr.m.ts.Lt(t, fr.m.ts.Int(0x80))) {
			r := tuple{true, it.i, t}
			it.i++
			return r
		}
		fr.m.unsupported("range over string with symbolic non-ASCII byte")
	}
	bs := make([]byte, 0, 4)
	for j := it.i; j < len(it.b) && j < it.i+4; j++ {
		u, ok := it.b[j].(uint8)
		if !ok {
			break
		}
		bs = append(bs, u)
	}
	r, n := utf8.DecodeRune(bs)
	res := tuple{true, it.i, r}
	it.i += n
	return res
}

type mapIter struct {
	m    *Map
	keys []value
	i    int
}

func (it *mapIter) next(fr *frame) tuple {
	for it.i < len(it.keys) {
		k := it.keys[it.i]
		it.i++
		if e := it.m.find(fr.m, k, false); e != nil {
			return tuple{true, copyVal(e.key), copyVal(e.val)}
		}
	}
	return tuple{false, nil, nil}
}

func rangeIter(fr *frame, x value, t types.Type) iter {
	switch x := x.(type) {
	case *Map:
		it := &mapIter{m: x}
		if x != nil {
			fr.m.sharedAccess(fr, x, false)
			order := x.iterOrder(fr.m)
			for _, e := range order {
				it.keys = append(it.keys, e.key)
			}
		}
		return it
	case string, *SymStr:
		return &stringIter{b: strBytes(x)}
	}
	panic(engineError{fmt.Sprintf("cannot range over %T", x)})
}

// ---------------------------------------------------------------- conversions

func conv(m *machine, tDst, tSrc types.Type, x value) value {
	utSrc := tSrc.Underlying()
	utDst := tDst.Underlying()

	switch utSrc := utSrc.(type) {
	case *types.Pointer:
		if b, ok := utDst.(*types.Basic); ok && b.Kind() == types.UnsafePointer {
			return unsafe.Pointer(x.(*value))
		}
		return x
	case *types.Slice:
		if _, ok := utDst.(*types.Slice); ok {
			return x
		}
		switch utSrc.Elem().Underlying().(*types.Basic).Kind() {
		case types.Byte:
			return mkStr(x.([]value))
		case types.Rune:
			xs := x.([]value)
			r := make([]rune, 0, len(xs))
			for i := range xs {
				rv, ok := xs[i].(rune)
				if !ok {
					m.unsupported("symbolic []rune -> string")
				}
				r = append(r, rv)
			}
			return string(r)
		}
	case *types.Basic:
		if utSrc.Info()&types.IsString != 0 {
			switch utDst := utDst.(type) {
			case *types.Slice:
				switch utDst.Elem().Underlying().(*types.Basic).Kind() {
				case types.Rune:
					s, ok := x.(string)
					if !ok {
						m.unsupported("symbolic string -> []rune")
					}
					var res []value
					for _, r := range []rune(s) {
						res = append(res, r)
					}
					return res
				case types.Byte:
					b := strBytes(x)
					if b == nil {
						b = []value{}
					}
					return b
				}
			case *types.Basic:
				if utDst.Info()&types.IsString != 0 {
					return x
				}
			}
			break
		}
		if utSrc.Kind() == types.UnsafePointer {
			if p, ok := x.(unsafe.Pointer); ok {
				if _, isPtr := utDst.(*types.Pointer); isPtr {
					return (*value)(p)
				}
			}
			return x
		}
		dst, ok := utDst.(*types.Basic)
		if !ok {
			break
		}
		// symbolic integer source
		if xt, ok := x.(*Term); ok {
			if xt.Sort == SBool {
				return x
			}
			if dk, ok := intInfo(dst); ok {
				return m.wrap(xt, dk)
			}
			if dst.Info()&types.IsString != 0 {
				m.unsupported("symbolic integer -> string")
			}
			m.unsupported("symbolic integer -> " + dst.String())
		}
		if utSrc.Info()&types.IsInteger != 0 {
			if dst.Info()&types.IsString != 0 {
				return string(rune(asInt64(x)))
			}
			if isSignedVal(x) {
				return fromInt64(basicKind(dst), asInt64(x))
			}
			return fromUint64(basicKind(dst), asUint64(x))
		}
		if utSrc.Info()&types.IsFloat != 0 {
			var f float64
			switch xv := x.(type) {
			case float32:
				f = float64(xv)
			case float64:
				f = xv
			}
			switch basicKind(dst) {
			case types.Float32:
				return float32(f)
			case types.Float64:
				return f
			case types.Uint, types.Uint8, types.Uint16, types.Uint32, types.Uint64, types.Uintptr:
				return fromUint64(basicKind(dst), uint64(f))
			default:
				return fromInt64(basicKind(dst), int64(f))
			}
		}
		if utSrc.Info()&types.IsComplex != 0 {
			switch xv := x.(type) {
			case complex64:
				if basicKind(dst) == types.Complex128 {
					return complex128(xv)
				}
				return xv
			case complex128:
				if basicKind(dst) == types.Complex64 {
					return complex64(xv)
				}
				return xv
			}
		}
		if utSrc.Info()&types.IsBoolean != 0 {
			return x
		}
	default:
		// struct -> struct, named conversions etc.: representation is shared
		return x
	}
	panic(engineError{fmt.Sprintf("unsupported conversion: %s  -> %s, dynamic type %T", tSrc, tDst, x)})
}

func basicKind(b *types.Basic) types.BasicKind {
	if k, ok := intInfo(b); ok {
		return k.kind
	}
	switch b.Kind() {
	case types.UntypedFloat:
		return types.Float64
	}
	return b.Kind()
}

// bitRun: t is a constant of the form 2^j * (2^w - 1), w >= 1.
func bitRun(t *Term) (j, w int, ok bool) {
	if !t.IsConst() || t.Val.Sign() <= 0 {
		return
	}
	v := new(big.Int).Set(t.Val)
	for v.Bit(0) == 0 {
		v.Rsh(v, 1)
		j++
	}
	w = v.BitLen()
	if new(big.Int).Add(v, big.NewInt(1)).Cmp(pow2(w)) != 0 {
		return 0, 0, false
	}
	return j, w, true
}

// multipleOfPow2 reports whether t is syntactically a multiple of 2^j.
func multipleOfPow2(t *Term, j int) bool {
	if j == 0 {
		return true
	}
	switch t.Op {
	case OpConst:
		return new(big.Int).Mod(t.Val, pow2(j)).Sign() == 0
	case OpMul:
		return multipleOfPow2(t.Args[0], j) || multipleOfPow2(t.Args[1], j)
	case OpAdd, OpSub:
		return multipleOfPow2(t.Args[0], j) && multipleOfPow2(t.Args[1], j)
	case OpIte:
		return multipleOfPow2(t.Args[1], j) && multipleOfPow2(t.Args[2], j)
	}
	return false
}
