package main

// If-conversion of small pure acyclic regions: instead of forking at a
// symbolic branch whose two arms only compute scalars and re-join, both arms
// are evaluated and the join's phis become ite terms. This is an
// optimisation of the exploration only; any doubt about purity bails out to
// ordinary forking.

import (
	"go/token"
	"go/types"
	"sync"

	"golang.org/x/tools/go/ssa"
)

type mergeInfo struct {
	ok     bool
	join   *ssa.BasicBlock
	region map[*ssa.BasicBlock]bool
}

var (
	mergeCache = map[*ssa.BasicBlock]*mergeInfo{}
	mergeMu    sync.Mutex
)

var pureCallees = map[string]bool{
	"bytes.Equal": true, "internal/bytealg.Equal": true, "strings.HasPrefix": true, "strings.HasSuffix": true,
	"bytes.HasPrefix": true, "bytes.HasSuffix": true,
}

func staticPure(instr ssa.Instruction) bool {
	switch in := instr.(type) {
	case *ssa.DebugRef, *ssa.BinOp, *ssa.Convert, *ssa.ChangeType, *ssa.ChangeInterface, *ssa.MakeInterface,
		*ssa.Field, *ssa.FieldAddr, *ssa.Index, *ssa.IndexAddr, *ssa.Extract, *ssa.Phi, *ssa.Slice:
		return true
	case *ssa.UnOp:
		return in.Op != token.ARROW
	case *ssa.Lookup:
		return true
	case *ssa.TypeAssert:
		return in.CommaOk
	case *ssa.Call:
		if in.Call.IsInvoke() {
			return false
		}
		switch f := in.Call.Value.(type) {
		case *ssa.Builtin:
			return f.Name() == "len" || f.Name() == "cap"
		case *ssa.Function:
			return pureCallees[f.String()]
		}
	}
	return false
}

func fwdReach(s *ssa.BasicBlock, limit int) map[*ssa.BasicBlock]bool {
	seen := map[*ssa.BasicBlock]bool{s: true}
	work := []*ssa.BasicBlock{s}
	for len(work) > 0 && len(seen) <= limit {
		b := work[0]
		work = work[1:]
		for _, n := range b.Succs {
			if n.Index > b.Index && !seen[n] {
				seen[n] = true
				work = append(work, n)
			}
		}
	}
	return seen
}

func mergeInfoFor(b *ssa.BasicBlock) *mergeInfo {
	mergeMu.Lock()
	defer mergeMu.Unlock()
	if mi, ok := mergeCache[b]; ok {
		return mi
	}
	mi := &mergeInfo{}
	mergeCache[b] = mi
	if len(b.Succs) != 2 {
		return mi
	}
	s0, s1 := b.Succs[0], b.Succs[1]
	if s0.Index <= b.Index || s1.Index <= b.Index {
		return mi // loop back edge
	}
	r0, r1 := fwdReach(s0, 14), fwdReach(s1, 14)
	var join *ssa.BasicBlock
	for x := range r0 {
		if r1[x] && (join == nil || x.Index < join.Index) {
			join = x
		}
	}
	if join == nil {
		return mi
	}
	// region: reachable from s0/s1 without passing join
	region := map[*ssa.BasicBlock]bool{}
	var work []*ssa.BasicBlock
	for _, s := range []*ssa.BasicBlock{s0, s1} {
		if s != join && !region[s] {
			region[s] = true
			work = append(work, s)
		}
	}
	for len(work) > 0 {
		x := work[0]
		work = work[1:]
		for _, n := range x.Succs {
			if n == join {
				continue
			}
			if n.Index <= x.Index {
				return mi // back edge
			}
			if !region[n] {
				region[n] = true
				work = append(work, n)
			}
		}
		if len(region) > 10 {
			return mi
		}
	}
	for x := range region {
		for _, p := range x.Preds {
			if p != b && !region[p] {
				return mi // side entry
			}
		}
		n := len(x.Instrs)
		switch x.Instrs[n-1].(type) {
		case *ssa.Jump, *ssa.If:
		default:
			return mi
		}
		for _, in := range x.Instrs[:n-1] {
			if !staticPure(in) {
				return mi
			}
		}
	}
	mi.ok, mi.join, mi.region = true, join, region
	return mi
}

type specBail struct{}

type arrival struct {
	cond *Term
	vals []value
}

func joinPhis(j *ssa.BasicBlock) []*ssa.Phi {
	var ps []*ssa.Phi
	for _, in := range j.Instrs {
		p, ok := in.(*ssa.Phi)
		if !ok {
			break
		}
		ps = append(ps, p)
	}
	return ps
}

// tryMerge attempts to if-convert the region starting at the symbolic If
// ending fr.block. On success fr.block is the join block with phis resolved.
func (fr *frame) tryMerge(cond *Term) (ok bool) {
	m := fr.m
	if m.spec || m.noMerge {
		return false
	}
	mi := mergeInfoFor(fr.block)
	if !mi.ok {
		return false
	}
	phis := joinPhis(mi.join)
	var arrivals []arrival
	start := fr.block
	savedPrev := fr.prevBlock
	m.spec = true
	defer func() {
		m.spec = false
		if r := recover(); r != nil {
			if _, isBail := r.(specBail); isBail {
				fr.block, fr.prevBlock = start, savedPrev
				ok = false
				return
			}
			panic(r)
		}
	}()
	var run func(blk, pred *ssa.BasicBlock, c *Term)
	run = func(blk, pred *ssa.BasicBlock, c *Term) {
		if len(arrivals) > 16 {
			panic(specBail{})
		}
		if blk == mi.join {
			pi := -1
			for i, p := range blk.Preds {
				if p == pred {
					pi = i
					break
				}
			}
			a := arrival{cond: c}
			for _, p := range phis {
				a.vals = append(a.vals, fr.get(p.Edges[pi]))
			}
			arrivals = append(arrivals, a)
			return
		}
		// phis of an inner block
		fr.block, fr.prevBlock = blk, pred
		rest := executePhis(fr)
		for _, in := range rest {
			switch in := in.(type) {
			case *ssa.Jump:
				run(blk.Succs[0], blk, c)
				return
			case *ssa.If:
				cv := fr.get(in.Cond)
				switch cv := cv.(type) {
				case bool:
					if cv {
						run(blk.Succs[0], blk, c)
					} else {
						run(blk.Succs[1], blk, c)
					}
				case *Term:
					run(blk.Succs[0], blk, m.ts.And(c, cv))
					run(blk.Succs[1], blk, m.ts.And(c, m.ts.Not(cv)))
				}
				return
			default:
				m.nInstr++
				visitInstr(fr, in)
			}
		}
	}
	run(start.Succs[0], start, cond)
	run(start.Succs[1], start, m.ts.Not(cond))
	if len(arrivals) == 0 {
		panic(specBail{})
	}
	// combine
	merged := make([]value, len(phis))
	for i := range phis {
		v, good := m.mergeVals(arrivals, i, phis[i].Type())
		if !good {
			panic(specBail{})
		}
		merged[i] = v
	}
	fr.mergedPhis = merged
	fr.hasMerged = true
	fr.prevBlock, fr.block = start, mi.join
	m.merges++
	return true
}

func (m *machine) mergeVals(as []arrival, i int, t types.Type) (value, bool) {
	first := as[0].vals[i]
	same := true
	for _, a := range as[1:] {
		if !identicalVal(first, a.vals[i]) {
			same = false
			break
		}
	}
	if same {
		return first, true
	}
	// scalars only
	isBool := false
	if b, ok := t.Underlying().(*types.Basic); ok {
		if b.Info()&types.IsBoolean != 0 {
			isBool = true
		} else if _, ok := intInfo(t); !ok {
			return nil, false
		}
	} else {
		return nil, false
	}
	_ = isBool
	for _, a := range as {
		switch a.vals[i].(type) {
		case *Term, bool:
		default:
			if !isInteger(a.vals[i]) {
				return nil, false
			}
		}
	}
	acc := m.termOf(as[len(as)-1].vals[i])
	for k := len(as) - 2; k >= 0; k-- {
		acc = m.ts.Ite(as[k].cond, m.termOf(as[k].vals[i]), acc)
	}
	return m.termVal2(acc, t), true
}

// termVal2 turns constant terms back into concrete values of type t.
func (m *machine) termVal2(t *Term, ty types.Type) value {
	if !t.IsConst() {
		return t
	}
	if t.Sort == SBool {
		return t.IsTrue()
	}
	k, _ := intInfo(ty)
	return fromBig(k.kind, t.Val)
}

func identicalVal(a, b value) bool {
	switch x := a.(type) {
	case *Term:
		y, ok := b.(*Term)
		return ok && x == y
	case *value:
		y, ok := b.(*value)
		return ok && x == y
	case string:
		y, ok := b.(string)
		return ok && x == y
	case bool:
		y, ok := b.(bool)
		return ok && x == y
	case *Map:
		y, ok := b.(*Map)
		return ok && x == y
	case iface:
		y, ok := b.(iface)
		return ok && sameType(x.t, y.t) && (x.t == nil || identicalVal(x.v, y.v))
	case []value:
		y, ok := b.([]value)
		if !ok || len(x) != len(y) {
			return false
		}
		if len(x) == 0 {
			return (x == nil) == (y == nil)
		}
		return &x[0] == &y[0]
	}
	if isInteger(a) && isInteger(b) {
		return a == b
	}
	return false
}
