package main

import (
	"fmt"
	"go/types"
	"math/big"
	"strings"

	"golang.org/x/tools/go/ssa"
)

type modelFn func(fr *frame, fn *ssa.Function, args []value) value

// modelState holds per-path state of library models.
type modelState struct {
	shaDigests  []*shaRec
	crcRecs     []*crcRec
	memo        map[string]value
	approxFmt   int
	clockCalls  int
	shaSymbolic int
	crcSymbolic int
	uniq        int
}

func newModelState() *modelState {
	return &modelState{memo: map[string]value{}}
}

func (e *engine) reg(name string, f modelFn) {
	e.models[name] = f
}

// tryModel serves a call by a library model, or decides that the function
// is to be interpreted from its SSA body.
func (e *engine) tryModel(fr *frame, fn *ssa.Function, args []value) (value, bool) {
	name := fn.String()
	if f, ok := e.models[name]; ok {
		return f(fr, fn, args), true
	}
	pkg := fn.Pkg
	if pkg == nil && fn.Origin() != nil {
		pkg = fn.Origin().Pkg
		if f, ok := e.models[fn.Origin().String()]; ok {
			return f(fr, fn, args), true
		}
	}
	if pkg == nil {
		// wrappers, bound methods, thunks: interpret
		if fn.Blocks != nil {
			return nil, false
		}
		fr.m.unsupported("no body and no model: " + name)
	}
	if e.interpreted(pkg.Pkg.Path()) {
		if isPkgInit(fn) {
			if e.skipInit[pkg.Pkg.Path()] {
				return nil, true
			}
			// lazy initialisation: a package initialiser does not run its
			// imports' initialisers; each package is initialised when first
			// touched (call, method, global access) or by vrt.InitPkg.
			if fr.caller != nil && fr.caller.fn != nil && isPkgInit(fr.caller.fn) {
				return nil, true
			}
			fr.m.inited[pkg] = true
		}
		if fn.Blocks == nil {
			fr.m.unsupported("no body and no model: " + name)
		}
		return nil, false
	}
	if strings.Contains(fn.Synthetic, "package initializer") {
		return nil, true // initialisers of external packages are skipped
	}
	if interpFuncs[name] && fn.Blocks != nil {
		return nil, false // self-contained functions of otherwise modelled packages
	}
	if fn.Synthetic != "" && fn.Blocks != nil {
		return nil, false // wrapper / bound method closure / thunk / instance
	}
	if fr.m.inInit > 0 && e.opaqueResult(fn) {
		// package initialisers may build objects of external types we never
		// look into (regexps, metrics, …): leave them nil; any later use goes
		// through an external method and is reported there.
		fr.m.res.initSkipped++
		return zero(fn.Signature.Results()), true
	}
	fr.m.unsupported("external function without model: " + name)
	return nil, true
}

var interpFuncs = map[string]bool{
	"encoding/binary.PutUvarint": true, "encoding/binary.Uvarint": true, "encoding/binary.PutVarint": true,
	"encoding/binary.Varint": true, "encoding/binary.AppendUvarint": true, "encoding/binary.AppendVarint": true,
}

// opaqueResult: all results are pointers / interfaces / structs declared in
// non-interpreted packages (or there are none).
func (e *engine) opaqueResult(fn *ssa.Function) bool {
	res := fn.Signature.Results()
	for i := 0; i < res.Len(); i++ {
		t := res.At(i).Type()
		if p, ok := t.(*types.Pointer); ok {
			t = p.Elem()
		}
		n, ok := t.(*types.Named)
		if !ok {
			if types.Identical(t, types.Universe.Lookup("error").Type()) {
				continue
			}
			return false
		}
		if n.Obj().Pkg() == nil {
			continue // error
		}
		if e.interpreted(n.Obj().Pkg().Path()) {
			return false
		}
		switch n.Underlying().(type) {
		case *types.Struct, *types.Interface:
		default:
			return false
		}
	}
	return true
}

func registerModels(e *engine) {
	registerVrt(e)
	registerSync(e)
	registerRuntime(e)
	registerBig(e)
	registerFmt(e)
	registerBytealg(e)
	registerHash(e)
	registerCRC(e)
	registerCodecs(e)
	registerJSON(e)
	registerMisc(e)
}

// ---------------------------------------------------------------- vrt

const vrtPath = modPath + "/zzverif/vrt."

func argStr(fr *frame, v value) string {
	s, ok := v.(string)
	if !ok {
		panic(engineError{"vrt: name/label argument must be a concrete string"})
	}
	return s
}

func (m *machine) feedVar(name string) *big.Int {
	f := m.concrete
	if f.vi >= len(f.vars) {
		return nil
	}
	v := f.vars[f.vi]
	f.vi++
	if v.Name != name {
		panic(engineError{fmt.Sprintf("concrete feed mismatch: harness asks %q, file has %q", name, v.Name)})
	}
	b, _ := new(big.Int).SetString(v.Val, 10)
	return b
}

func registerVrt(e *engine) {
	e.reg(vrtPath+"Int", func(fr *frame, fn *ssa.Function, a []value) value {
		m := fr.m
		name := argStr(fr, a[0])
		lo, hi := asInt64(a[1]), asInt64(a[2])
		if lo == hi {
			return lo
		}
		if m.concrete != nil {
			v := m.feedVar(name)
			if v == nil {
				return lo
			}
			return v.Int64()
		}
		return m.newIntVar(name, big.NewInt(lo), big.NewInt(hi), "int")
	})
	e.reg(vrtPath+"Uint64", func(fr *frame, fn *ssa.Function, a []value) value {
		m := fr.m
		name := argStr(fr, a[0])
		if m.concrete != nil {
			v := m.feedVar(name)
			if v == nil {
				return uint64(0)
			}
			return v.Uint64()
		}
		return m.newIntVar(name, big.NewInt(0), intKind{64, false, types.Uint64}.max(), "int")
	})
	e.reg(vrtPath+"Bool", func(fr *frame, fn *ssa.Function, a []value) value {
		m := fr.m
		name := argStr(fr, a[0])
		if m.concrete != nil {
			v := m.feedVar(name)
			return v != nil && v.Sign() != 0
		}
		return m.newBoolVar(name)
	})
	byteVar := func(m *machine, name string) value {
		if m.concrete != nil {
			v := m.feedVar(name)
			if v == nil {
				return uint8(0)
			}
			return uint8(v.Int64())
		}
		return m.newIntVar(name, big.NewInt(0), big.NewInt(255), "byte")
	}
	e.reg(vrtPath+"Byte", func(fr *frame, fn *ssa.Function, a []value) value {
		return byteVar(fr.m, argStr(fr, a[0]))
	})
	e.reg(vrtPath+"Bytes", func(fr *frame, fn *ssa.Function, a []value) value {
		name := argStr(fr, a[0])
		n := int(fr.m.concInt(a[1], "vrt.Bytes length"))
		out := make([]value, n)
		for i := range out {
			out[i] = byteVar(fr.m, fmt.Sprintf("%s.%d", name, i))
		}
		return out
	})
	e.reg(vrtPath+"String", func(fr *frame, fn *ssa.Function, a []value) value {
		name := argStr(fr, a[0])
		n := int(fr.m.concInt(a[1], "vrt.String length"))
		out := make([]value, n)
		for i := range out {
			out[i] = byteVar(fr.m, fmt.Sprintf("%s.%d", name, i))
		}
		return mkStr(out)
	})
	e.reg(vrtPath+"BigNat", func(fr *frame, fn *ssa.Function, a []value) value {
		m := fr.m
		name := argStr(fr, a[0])
		nb := int(m.concInt(a[1], "vrt.BigNat size"))
		if m.concrete != nil {
			v := m.feedVar(name)
			if v == nil {
				v = new(big.Int)
			}
			return newBigPtr(v)
		}
		hi := new(big.Int).Sub(new(big.Int).Lsh(big.NewInt(1), uint(8*nb)), big.NewInt(1))
		return newBigPtr(m.newIntVar(name, big.NewInt(0), hi, "int"))
	})
	e.reg(vrtPath+"Dyadic", func(fr *frame, fn *ssa.Function, a []value) value {
		m := fr.m
		name := argStr(fr, a[0])
		fb := int(m.concInt(a[1], "vrt.Dyadic fracBits"))
		maxAbs := m.concInt(a[2], "vrt.Dyadic maxAbs")
		den := int64(1) << uint(fb)
		if m.concrete != nil {
			v := m.feedVar(name)
			if v == nil {
				return float64(0)
			}
			return float64(v.Int64()) / float64(den)
		}
		t := m.newIntVar(name, big.NewInt(-maxAbs*den), big.NewInt(maxAbs*den), "int")
		return &SymFloat{num: t, den: den}
	})
	e.reg(vrtPath+"Choice", func(fr *frame, fn *ssa.Function, a []value) value {
		m := fr.m
		n := int(m.concInt(a[1], "vrt.Choice n"))
		if m.concrete != nil && m.concrete.allC == nil {
			if n <= 1 {
				return 0
			}
			f := m.concrete
			if f.ci >= len(f.choices) {
				return 0
			}
			c := f.choices[f.ci]
			f.ci++
			return c
		}
		return m.choose(n, "choice")
	})
	e.reg(vrtPath+"Assume", func(fr *frame, fn *ssa.Function, a []value) value {
		fr.m.assume(a[0])
		return nil
	})
	e.reg(vrtPath+"Assert", func(fr *frame, fn *ssa.Function, a []value) value {
		m := fr.m
		label := argStr(fr, a[1])
		if m.pos < len(m.prefix) {
			if len(m.known) > 0 {
				m.known = map[string]*Term{}
			}
			// already examined on the parent path with the same path condition
			switch c := a[0].(type) {
			case bool:
				if !c {
					m.abort("violation-stop", label)
				}
			case *Term:
				m.addPC(c)
			}
			return nil
		}
		pos := ""
		if fr.caller != nil {
			pos = shortPos(m.eng.prog, fr.caller.cur)
		}
		m.assertCond(a[0], label, pos)
		return nil
	})
	e.reg(vrtPath+"Cover", func(fr *frame, fn *ssa.Function, a []value) value {
		fr.m.cover(argStr(fr, a[0]), a[1])
		return nil
	})
	e.reg(vrtPath+"Known", func(fr *frame, fn *ssa.Function, a []value) value {
		fr.m.addKnown(argStr(fr, a[0]), a[1])
		return nil
	})
	e.reg(vrtPath+"Observe", func(fr *frame, fn *ssa.Function, a []value) value {
		m := fr.m
		label := argStr(fr, a[0])
		m.res.observes = append(m.res.observes, label+"="+m.fmtValue(fr, a[1].(iface), 'v', false))
		return nil
	})
	e.reg(vrtPath+"Quiesce", func(fr *frame, fn *ssa.Function, a []value) value {
		fr.m.quiesce(fr)
		return nil
	})
	e.reg(vrtPath+"InitPkg", func(fr *frame, fn *ssa.Function, a []value) value {
		path := argStr(fr, a[0])
		for _, p := range fr.m.eng.prog.AllPackages() {
			if p.Pkg.Path() == path {
				fr.m.ensureInit(p)
				return nil
			}
		}
		panic(engineError{"vrt.InitPkg: package not loaded: " + path})
	})
	e.reg(vrtPath+"ExploreSchedules", func(fr *frame, fn *ssa.Function, a []value) value {
		// the harness brackets its concurrent section; outside it goroutines run deterministically
		on, _ := a[0].(bool)
		fr.m.exploring = on && fr.m.eng.cfg.Explore
		return nil
	})
	e.reg(vrtPath+"Yield", func(fr *frame, fn *ssa.Function, a []value) value {
		if fr.m.exploring {
			fr.m.schedPoint(fr)
		} else {
			fr.m.yield(fr)
		}
		return nil
	})
	e.reg(vrtPath+"PermuteMaps", func(fr *frame, fn *ssa.Function, a []value) value {
		on, _ := a[0].(bool)
		fr.m.permuteOff = !on
		return nil
	})
	e.reg(vrtPath+"Native", func(fr *frame, fn *ssa.Function, a []value) value { return false })
	e.reg(vrtPath+"Symbolic", func(fr *frame, fn *ssa.Function, a []value) value {
		return fr.m.concrete == nil
	})
}

// ---------------------------------------------------------------- sync / atomic

func structOf(p value) structure {
	ptr := p.(*value)
	if ptr == nil {
		panic(targetPanic{iface{}})
	}
	return (*ptr).(structure)
}

func registerSync(e *engine) {
	// Mutex: slot 0 holds int32 0/1
	lock := func(fr *frame, s structure) {
		m := fr.m
		m.schedPoint(fr)
		m.block(fr, func() bool { return asInt64(s[0]) == 0 })
		s[0] = int32(1)
		m.lockAcquire(fr, &s[0])
	}
	unlock := func(fr *frame, s structure) {
		if asInt64(s[0]) == 0 {
			panic(targetPanic{iface{t: fr.m.eng.runtimeErrorType, v: "sync: unlock of unlocked mutex"}})
		}
		s[0] = int32(0)
		fr.m.lockRelease(fr, &s[0])
		fr.m.schedPoint(fr)
	}
	e.reg("(*sync.Mutex).Lock", func(fr *frame, fn *ssa.Function, a []value) value { lock(fr, structOf(a[0])); return nil })
	e.reg("(*sync.Mutex).Unlock", func(fr *frame, fn *ssa.Function, a []value) value { unlock(fr, structOf(a[0])); return nil })
	e.reg("(*sync.Mutex).TryLock", func(fr *frame, fn *ssa.Function, a []value) value {
		s := structOf(a[0])
		fr.m.schedPoint(fr)
		if asInt64(s[0]) != 0 {
			return false
		}
		s[0] = int32(1)
		fr.m.lockAcquire(fr, &s[0])
		return true
	})
	// RWMutex: slot 1 = writer flag (uint32), slot 2 = reader count (uint32)
	e.reg("(*sync.RWMutex).Lock", func(fr *frame, fn *ssa.Function, a []value) value {
		s := structOf(a[0])
		fr.m.schedPoint(fr)
		fr.m.block(fr, func() bool { return asInt64(s[1]) == 0 && asInt64(s[2]) == 0 })
		s[1] = uint32(1)
		fr.m.lockAcquire(fr, &s[1])
		fr.m.lockAcquire(fr, &s[2]) // a writer is ordered after earlier readers too
		return nil
	})
	e.reg("(*sync.RWMutex).Unlock", func(fr *frame, fn *ssa.Function, a []value) value {
		s := structOf(a[0])
		if asInt64(s[1]) == 0 {
			fr.m.runtimePanic("sync: Unlock of unlocked RWMutex")
		}
		s[1] = uint32(0)
		fr.m.lockRelease(fr, &s[1])
		fr.m.schedPoint(fr)
		return nil
	})
	e.reg("(*sync.RWMutex).RLock", func(fr *frame, fn *ssa.Function, a []value) value {
		s := structOf(a[0])
		fr.m.schedPoint(fr)
		fr.m.block(fr, func() bool { return asInt64(s[1]) == 0 })
		s[2] = uint32(asInt64(s[2]) + 1)
		fr.m.lockAcquire(fr, &s[1]) // a reader is ordered after earlier writers only
		return nil
	})
	e.reg("(*sync.RWMutex).RUnlock", func(fr *frame, fn *ssa.Function, a []value) value {
		s := structOf(a[0])
		if asInt64(s[2]) == 0 {
			fr.m.runtimePanic("sync: RUnlock of unlocked RWMutex")
		}
		s[2] = uint32(asInt64(s[2]) - 1)
		fr.m.lockRelease(fr, &s[2])
		fr.m.schedPoint(fr)
		return nil
	})
	// WaitGroup: slot 2 = counter
	e.reg("(*sync.WaitGroup).Add", func(fr *frame, fn *ssa.Function, a []value) value {
		s := structOf(a[0])
		n := asInt64(s[2]) + fr.m.concInt(a[1], "WaitGroup.Add")
		if n < 0 {
			fr.m.runtimePanic("sync: negative WaitGroup counter")
		}
		s[2] = uint32(n)
		return nil
	})
	e.reg("(*sync.WaitGroup).Done", func(fr *frame, fn *ssa.Function, a []value) value {
		s := structOf(a[0])
		n := asInt64(s[2]) - 1
		if n < 0 {
			fr.m.runtimePanic("sync: negative WaitGroup counter")
		}
		s[2] = uint32(n)
		fr.m.lockRelease(fr, &s[2])
		fr.m.schedPoint(fr)
		return nil
	})
	e.reg("(*sync.WaitGroup).Wait", func(fr *frame, fn *ssa.Function, a []value) value {
		s := structOf(a[0])
		fr.m.block(fr, func() bool { return asInt64(s[2]) == 0 })
		fr.m.lockAcquire(fr, &s[2])
		return nil
	})
	// Once: slot 0 (atomic.Uint32 struct) replaced by a state int: 0 fresh, 1 running, 2 done
	e.reg("(*sync.Once).Do", func(fr *frame, fn *ssa.Function, a []value) value {
		s := structOf(a[0])
		st, _ := s[0].(int)
		if st == 2 {
			return nil
		}
		if st == 1 {
			fr.m.block(fr, func() bool { x, _ := s[0].(int); return x == 2 })
			return nil
		}
		s[0] = 1
		defer func() { s[0] = 2 }()
		call(fr.m, fr, 0, a[1], nil)
		return nil
	})
	// sync.Map: slot 2 holds the model *Map (any -> any)
	anyT := types.NewInterfaceType(nil, nil)
	anyT.Complete()
	mapT := types.NewMap(anyT, anyT)
	smap := func(fr *frame, p value) *Map {
		s := structOf(p)
		mp, ok := s[2].(*Map)
		if !ok || mp == nil || mp.typ != mapT {
			mp = newMap(mapT)
			s[2] = mp
		}
		fr.m.schedPoint(fr)
		fr.m.syncGlobal(fr)
		return mp
	}
	e.reg("(*sync.Map).Load", func(fr *frame, fn *ssa.Function, a []value) value {
		mp := smap(fr, a[0])
		if en := mp.find(fr.m, a[1], false); en != nil {
			return tuple{en.val, true}
		}
		return tuple{iface{}, false}
	})
	e.reg("(*sync.Map).Store", func(fr *frame, fn *ssa.Function, a []value) value {
		smap(fr, a[0]).insert(fr.m, a[1], a[2])
		return nil
	})
	e.reg("(*sync.Map).LoadOrStore", func(fr *frame, fn *ssa.Function, a []value) value {
		mp := smap(fr, a[0])
		if en := mp.find(fr.m, a[1], false); en != nil {
			return tuple{en.val, true}
		}
		mp.insert(fr.m, a[1], a[2])
		return tuple{a[2], false}
	})
	e.reg("(*sync.Map).LoadAndDelete", func(fr *frame, fn *ssa.Function, a []value) value {
		mp := smap(fr, a[0])
		if en := mp.find(fr.m, a[1], false); en != nil {
			v := en.val
			mp.delete(fr.m, a[1])
			return tuple{v, true}
		}
		return tuple{iface{}, false}
	})
	e.reg("(*sync.Map).Delete", func(fr *frame, fn *ssa.Function, a []value) value {
		smap(fr, a[0]).delete(fr.m, a[1])
		return nil
	})
	e.reg("(*sync.Map).Range", func(fr *frame, fn *ssa.Function, a []value) value {
		mp := smap(fr, a[0])
		for _, en := range mp.iterOrder(fr.m) {
			if mp.find(fr.m, en.key, false) == nil {
				continue
			}
			r := call(fr.m, fr, 0, a[1], []value{en.key, en.val})
			if !fr.m.truth(r) {
				break
			}
		}
		return nil
	})
	// Cond: slot 1 = L (Locker iface), slot 2 = generation counter
	e.reg("sync.NewCond", func(fr *frame, fn *ssa.Function, a []value) value {
		ct := deref(fn.Signature.Results().At(0).Type())
		z := zero(ct)
		z.(structure)[1] = a[0]
		z.(structure)[2] = 0
		return &z
	})
	condGen := func(s structure) int { g, _ := s[2].(int); return g }
	e.reg("(*sync.Cond).Broadcast", func(fr *frame, fn *ssa.Function, a []value) value {
		s := structOf(a[0])
		s[2] = condGen(s) + 1
		fr.m.schedPoint(fr)
		fr.m.syncGlobal(fr)
		return nil
	})
	e.reg("(*sync.Cond).Signal", e.models["(*sync.Cond).Broadcast"])
	e.reg("(*sync.Cond).Wait", func(fr *frame, fn *ssa.Function, a []value) value {
		m := fr.m
		s := structOf(a[0])
		l := s[1].(iface)
		unlock := m.eng.prog.LookupMethod(l.t, nil, "Unlock")
		lock := m.eng.prog.LookupMethod(l.t, nil, "Lock")
		g := condGen(s)
		call(m, fr, 0, unlock, []value{l.v})
		m.block(fr, func() bool { return condGen(s) != g })
		call(m, fr, 0, lock, []value{l.v})
		return nil
	})
	e.reg("(*sync.Pool).Get", func(fr *frame, fn *ssa.Function, a []value) value {
		s := structOf(a[0])
		newf := s[len(s)-1]
		if isNilRef(newf) {
			return iface{}
		}
		return call(fr.m, fr, 0, newf, nil)
	})
	e.reg("(*sync.Pool).Put", func(fr *frame, fn *ssa.Function, a []value) value { return nil })

	// sync/atomic on plain words
	for _, ty := range []string{"Int32", "Int64", "Uint32", "Uint64", "Uintptr"} {
		ty := ty
		e.reg("sync/atomic.Load"+ty, func(fr *frame, fn *ssa.Function, a []value) value {
			fr.m.schedPoint(fr)
			fr.m.syncGlobal(fr)
			return *(a[0].(*value))
		})
		e.reg("sync/atomic.Store"+ty, func(fr *frame, fn *ssa.Function, a []value) value {
			fr.m.schedPoint(fr)
			fr.m.syncGlobal(fr)
			*(a[0].(*value)) = a[1]
			return nil
		})
		e.reg("sync/atomic.Add"+ty, func(fr *frame, fn *ssa.Function, a []value) value {
			fr.m.schedPoint(fr)
			fr.m.syncGlobal(fr)
			p := a[0].(*value)
			t := fn.Signature.Params().At(1).Type()
			*p = binop(fr.m, tokenADD, t, *p, a[1])
			return *p
		})
		e.reg("sync/atomic.CompareAndSwap"+ty, func(fr *frame, fn *ssa.Function, a []value) value {
			fr.m.schedPoint(fr)
			fr.m.syncGlobal(fr)
			p := a[0].(*value)
			t := fn.Signature.Params().At(1).Type()
			if fr.m.truth(equals(fr.m, t, *p, a[1])) {
				*p = a[2]
				return true
			}
			return false
		})
		e.reg("sync/atomic.Swap"+ty, func(fr *frame, fn *ssa.Function, a []value) value {
			fr.m.schedPoint(fr)
			fr.m.syncGlobal(fr)
			p := a[0].(*value)
			old := *p
			*p = a[1]
			return old
		})
	}
	// atomic.Value: slot 0 holds the stored interface
	e.reg("(*sync/atomic.Value).Load", func(fr *frame, fn *ssa.Function, a []value) value {
		s := structOf(a[0])
		if v, ok := s[0].(iface); ok {
			return v
		}
		return iface{}
	})
	e.reg("(*sync/atomic.Value).Store", func(fr *frame, fn *ssa.Function, a []value) value {
		structOf(a[0])[0] = a[1]
		return nil
	})
	// typed atomics (atomic.Int32 etc.): struct{_ noCopy; [_ align64;] v T}: last slot is the value
	for _, ty := range []string{"Int32", "Int64", "Uint32", "Uint64", "Bool"} {
		ty := ty
		last := func(a value) *value { s := structOf(a); return &s[len(s)-1] }
		e.reg("(*sync/atomic."+ty+").Load", func(fr *frame, fn *ssa.Function, a []value) value {
			fr.m.schedPoint(fr)
			fr.m.syncGlobal(fr)
			v := *last(a[0])
			if ty == "Bool" {
				return asInt64(v) != 0
			}
			return v
		})
		e.reg("(*sync/atomic."+ty+").Store", func(fr *frame, fn *ssa.Function, a []value) value {
			fr.m.schedPoint(fr)
			fr.m.syncGlobal(fr)
			if ty == "Bool" {
				if a[1].(bool) {
					*last(a[0]) = uint32(1)
				} else {
					*last(a[0]) = uint32(0)
				}
				return nil
			}
			*last(a[0]) = a[1]
			return nil
		})
		if ty != "Bool" {
			e.reg("(*sync/atomic."+ty+").Add", func(fr *frame, fn *ssa.Function, a []value) value {
				fr.m.schedPoint(fr)
				fr.m.syncGlobal(fr)
				p := last(a[0])
				t := fn.Signature.Params().At(0).Type()
				*p = binop(fr.m, tokenADD, t, *p, a[1])
				return *p
			})
			e.reg("(*sync/atomic."+ty+").CompareAndSwap", func(fr *frame, fn *ssa.Function, a []value) value {
				fr.m.schedPoint(fr)
				fr.m.syncGlobal(fr)
				p := last(a[0])
				t := fn.Signature.Params().At(0).Type()
				if fr.m.truth(equals(fr.m, t, *p, a[1])) {
					*p = a[2]
					return true
				}
				return false
			})
		}
	}
}

// ---------------------------------------------------------------- runtime, time, os

func registerRuntime(e *engine) {
	nop := func(fr *frame, fn *ssa.Function, a []value) value { return nil }
	e.reg("runtime.GC", nop)
	e.reg("runtime.KeepAlive", nop)
	e.reg("runtime.SetFinalizer", nop)
	e.reg("runtime.Gosched", func(fr *frame, fn *ssa.Function, a []value) value { fr.m.yield(fr); return nil })
	e.reg("runtime.NumCPU", func(fr *frame, fn *ssa.Function, a []value) value { return 2 })
	e.reg("runtime.GOMAXPROCS", func(fr *frame, fn *ssa.Function, a []value) value { return 2 })
	e.reg("runtime.NumGoroutine", func(fr *frame, fn *ssa.Function, a []value) value { return len(fr.m.threads) })
	e.reg("runtime.Caller", func(fr *frame, fn *ssa.Function, a []value) value {
		return tuple{uintptr(0), "verif.go", 1, true}
	})
	e.reg("runtime.Callers", func(fr *frame, fn *ssa.Function, a []value) value { return 0 })
	e.reg("runtime/debug.Stack", func(fr *frame, fn *ssa.Function, a []value) value { return []value{} })
	e.reg("runtime/debug.PrintStack", nop)
	e.reg("os.Getenv", func(fr *frame, fn *ssa.Function, a []value) value { return "" })
	e.reg("os.Getpid", func(fr *frame, fn *ssa.Function, a []value) value { return 4242 })
	e.reg("os.Hostname", func(fr *frame, fn *ssa.Function, a []value) value { return tuple{"verif", iface{}} })

	// stub clock: concrete, strictly increasing by 1ms per reading unless set by the harness
	now := func(m *machine) int64 {
		m.models.clockCalls++
		c, _ := m.clock.(int64)
		if c == 0 {
			c = 1_600_000_000_000_000_000
		}
		c += 1_000_000
		m.clock = c
		return c
	}
	e.reg("time.now", func(fr *frame, fn *ssa.Function, a []value) value {
		ns := now(fr.m)
		return tuple{ns / 1e9, int32(ns % 1e9), ns}
	})
	e.reg("time.runtimeNano", func(fr *frame, fn *ssa.Function, a []value) value { return now(fr.m) })
	e.reg("time.Sleep", func(fr *frame, fn *ssa.Function, a []value) value {
		m := fr.m
		c, _ := m.clock.(int64)
		if c == 0 {
			c = 1_600_000_000_000_000_000
		}
		m.clock = c + fr.m.concInt(a[0], "sleep")
		m.yield(fr)
		return nil
	})
	e.reg(vrtPath+"SetClock", func(fr *frame, fn *ssa.Function, a []value) value {
		fr.m.clock = fr.m.concInt(a[0], "clock")
		return nil
	})
	e.reg(vrtPath+"AdvanceClock", func(fr *frame, fn *ssa.Function, a []value) value {
		c, _ := fr.m.clock.(int64)
		if c == 0 {
			c = 1_600_000_000_000_000_000
		}
		fr.m.clock = c + fr.m.concInt(a[0], "clock")
		return nil
	})
}

func (m *machine) initExternalGlobal(g *ssa.Global, p *value) {
	name := g.Pkg.Pkg.Path() + "." + g.Name()
	mkErr := func(msg string) value {
		// *errors.errorString
		var et types.Type
		if ep := m.eng.prog.ImportedPackage("errors"); ep != nil {
			et = types.NewPointer(ep.Type("errorString").Type())
		}
		var s value = structure{msg}
		return iface{t: et, v: &s}
	}
	switch name {
	case "io.EOF":
		*p = mkErr("EOF")
	case "io.ErrUnexpectedEOF":
		*p = mkErr("unexpected EOF")
	case "os.Args":
		*p = []value{"verif"}
	case "os.Stdout", "os.Stderr", "os.Stdin":
		var s value = structure{(*value)(nil)}
		*p = &s
	case "time.Local", "time.UTC":
		// pointer to a zero Location
		lt := deref(deref(g.Type()))
		z := zero(lt)
		*p = &z
	case "time.localLoc", "time.utcLoc":
	default:
		if m.eng.cfgDebugGlobals {
			fmt.Println("note: zero-initialised external global", name)
		}
	}
}
