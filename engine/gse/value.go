package main

// Values. All interpreter values are boxed in the empty interface:
//
//   bool, int..uintptr, float32/64, complex*  concrete scalars (native Go types)
//   *Term                                     symbolic bool / integer
//   string | *SymStr                          strings (concrete | per-byte symbolic)
//   *value                                    pointers (to a slot)
//   structure, array                          aggregates (slots)
//   []value                                   slices (share backing store like Go)
//   *Map, *Chan                               reference types
//   iface                                     interfaces
//   *ssa.Function, *closure, *ssa.Builtin     functions
//   tuple                                     multi-results

import (
	"bytes"
	"fmt"
	"go/types"
	"math/big"
	"strings"
	"unsafe"

	"golang.org/x/tools/go/ssa"
)

type value interface{}

type tuple []value

type array []value

type structure []value

type iface struct {
	t types.Type
	v value
}

type closure struct {
	Fn  *ssa.Function
	Env []value
}

// boundMethod is a native (model) function value.
type nativeFunc struct {
	name string
	fn   func(fr *frame, args []value) value
}

// SymStr is an immutable string some of whose bytes are symbolic.
type SymStr struct {
	b []value // uint8 or *Term
}

type bad struct{}

type iter interface {
	next(fr *frame) tuple
}

func deref(t types.Type) types.Type {
	if p, ok := t.Underlying().(*types.Pointer); ok {
		return p.Elem()
	}
	panic(fmt.Sprintf("deref: not a pointer: %s", t))
}

// ---------------------------------------------------------------- strings

func isStr(v value) bool {
	switch v.(type) {
	case string, *SymStr:
		return true
	}
	return false
}

func strLen(v value) int {
	switch s := v.(type) {
	case string:
		return len(s)
	case *SymStr:
		return len(s.b)
	}
	panic(fmt.Sprintf("strLen: %T", v))
}

func strByte(v value, i int) value {
	switch s := v.(type) {
	case string:
		return s[i]
	case *SymStr:
		return s.b[i]
	}
	panic("strByte")
}

func strBytes(v value) []value {
	switch s := v.(type) {
	case string:
		r := make([]value, len(s))
		for i := 0; i < len(s); i++ {
			r[i] = s[i]
		}
		return r
	case *SymStr:
		r := make([]value, len(s.b))
		copy(r, s.b)
		return r
	}
	panic(fmt.Sprintf("strBytes: %T", v))
}

// mkStr builds a string value from bytes, concrete if all bytes are.
func mkStr(b []value) value {
	conc := true
	for _, x := range b {
		if _, ok := x.(*Term); ok {
			conc = false
			break
		}
	}
	if conc {
		bs := make([]byte, len(b))
		for i, x := range b {
			bs[i] = x.(uint8)
		}
		return string(bs)
	}
	c := make([]value, len(b))
	copy(c, b)
	return &SymStr{b: c}
}

// concBytes returns the concrete bytes of a []value, or false.
func concBytes(b []value) ([]byte, bool) {
	out := make([]byte, len(b))
	for i, x := range b {
		u, ok := x.(uint8)
		if !ok {
			return nil, false
		}
		out[i] = u
	}
	return out, true
}

func bytesToValues(b []byte) []value {
	if b == nil {
		return nil
	}
	r := make([]value, len(b))
	for i, x := range b {
		r[i] = x
	}
	return r
}

// ---------------------------------------------------------------- ints

type intKind struct {
	bits   int
	signed bool
	kind   types.BasicKind
}

func intInfo(t types.Type) (intKind, bool) {
	b, ok := t.Underlying().(*types.Basic)
	if !ok {
		return intKind{}, false
	}
	switch b.Kind() {
	case types.Int, types.UntypedInt:
		return intKind{64, true, types.Int}, true
	case types.Int8:
		return intKind{8, true, types.Int8}, true
	case types.Int16:
		return intKind{16, true, types.Int16}, true
	case types.Int32, types.UntypedRune:
		return intKind{32, true, types.Int32}, true
	case types.Int64:
		return intKind{64, true, types.Int64}, true
	case types.Uint:
		return intKind{64, false, types.Uint}, true
	case types.Uint8:
		return intKind{8, false, types.Uint8}, true
	case types.Uint16:
		return intKind{16, false, types.Uint16}, true
	case types.Uint32:
		return intKind{32, false, types.Uint32}, true
	case types.Uint64:
		return intKind{64, false, types.Uint64}, true
	case types.Uintptr:
		return intKind{64, false, types.Uintptr}, true
	}
	return intKind{}, false
}

func (k intKind) min() *big.Int {
	if !k.signed {
		return big.NewInt(0)
	}
	return new(big.Int).Neg(new(big.Int).Lsh(big.NewInt(1), uint(k.bits-1)))
}

func (k intKind) max() *big.Int {
	if !k.signed {
		return new(big.Int).Sub(new(big.Int).Lsh(big.NewInt(1), uint(k.bits)), big.NewInt(1))
	}
	return new(big.Int).Sub(new(big.Int).Lsh(big.NewInt(1), uint(k.bits-1)), big.NewInt(1))
}

func fromInt64(kind types.BasicKind, x int64) value {
	switch kind {
	case types.Int:
		return int(x)
	case types.Int8:
		return int8(x)
	case types.Int16:
		return int16(x)
	case types.Int32:
		return int32(x)
	case types.Int64:
		return x
	case types.Uint:
		return uint(x)
	case types.Uint8:
		return uint8(x)
	case types.Uint16:
		return uint16(x)
	case types.Uint32:
		return uint32(x)
	case types.Uint64:
		return uint64(x)
	case types.Uintptr:
		return uintptr(x)
	case types.Float32:
		return float32(x)
	case types.Float64:
		return float64(x)
	}
	panic(fmt.Sprintf("fromInt64: kind %v", kind))
}

func fromUint64(kind types.BasicKind, x uint64) value {
	switch kind {
	case types.Float32:
		return float32(x)
	case types.Float64:
		return float64(x)
	}
	return fromInt64(kind, int64(x))
}

// fromBig converts a mathematical integer known to be in range of kind.
func fromBig(kind types.BasicKind, v *big.Int) value {
	if v.Sign() >= 0 && v.IsUint64() {
		return fromUint64(kind, v.Uint64())
	}
	if v.IsInt64() {
		return fromInt64(kind, v.Int64())
	}
	// out of range: wrap
	m := new(big.Int).And(v, new(big.Int).SetUint64(^uint64(0)))
	return fromUint64(kind, m.Uint64())
}

func isInteger(v value) bool {
	switch v.(type) {
	case int, int8, int16, int32, int64, uint, uint8, uint16, uint32, uint64, uintptr:
		return true
	}
	return false
}

func asInt64(x value) int64 {
	switch x := x.(type) {
	case int:
		return int64(x)
	case int8:
		return int64(x)
	case int16:
		return int64(x)
	case int32:
		return int64(x)
	case int64:
		return x
	case uint:
		return int64(x)
	case uint8:
		return int64(x)
	case uint16:
		return int64(x)
	case uint32:
		return int64(x)
	case uint64:
		return int64(x)
	case uintptr:
		return int64(x)
	}
	panic(engineError{fmt.Sprintf("cannot convert %T to int64", x)})
}

func asUint64(x value) uint64 {
	switch x := x.(type) {
	case uint:
		return uint64(x)
	case uint8:
		return uint64(x)
	case uint16:
		return uint64(x)
	case uint32:
		return uint64(x)
	case uint64:
		return x
	case uintptr:
		return uint64(x)
	}
	return uint64(asInt64(x))
}

func isSignedVal(x value) bool {
	switch x.(type) {
	case int, int8, int16, int32, int64:
		return true
	}
	return false
}

// bigOf returns the mathematical value of a concrete integer.
func bigOf(x value) *big.Int {
	if isSignedVal(x) {
		return big.NewInt(asInt64(x))
	}
	return new(big.Int).SetUint64(asUint64(x))
}

// ---------------------------------------------------------------- zero / load / store

func zero(t types.Type) value {
	switch t := t.(type) {
	case *types.Basic:
		if t.Kind() == types.UntypedNil {
			panic("untyped nil has no zero value")
		}
		if t.Info()&types.IsUntyped != 0 {
			t = types.Default(t).(*types.Basic)
		}
		switch t.Kind() {
		case types.Bool:
			return false
		case types.Float32:
			return float32(0)
		case types.Float64:
			return float64(0)
		case types.Complex64:
			return complex64(0)
		case types.Complex128:
			return complex128(0)
		case types.String:
			return ""
		case types.UnsafePointer:
			return unsafe.Pointer(nil)
		default:
			if k, ok := intInfo(t); ok {
				return fromInt64(k.kind, 0)
			}
			panic(fmt.Sprint("zero for unexpected type:", t))
		}
	case *types.Pointer:
		return (*value)(nil)
	case *types.Array:
		a := make(array, t.Len())
		for i := range a {
			a[i] = zero(t.Elem())
		}
		return a
	case *types.Named:
		return zero(t.Underlying())
	case *types.Alias:
		return zero(types.Unalias(t))
	case *types.Interface:
		return iface{}
	case *types.Slice:
		return []value(nil)
	case *types.Struct:
		s := make(structure, t.NumFields())
		for i := range s {
			s[i] = zero(t.Field(i).Type())
		}
		return s
	case *types.Tuple:
		if t.Len() == 1 {
			return zero(t.At(0).Type())
		}
		s := make(tuple, t.Len())
		for i := range s {
			s[i] = zero(t.At(i).Type())
		}
		return s
	case *types.Chan:
		return (*Chan)(nil)
	case *types.Map:
		return (*Map)(nil)
	case *types.Signature:
		return (*ssa.Function)(nil)
	case *types.TypeParam:
		panic(engineError{"zero of type parameter"})
	}
	panic(fmt.Sprint("zero: unexpected ", t))
}

// copyVal returns a copy of v with value semantics for aggregates.
func copyVal(v value) value {
	switch v := v.(type) {
	case structure:
		a := make(structure, len(v))
		for i := range v {
			a[i] = copyVal(v[i])
		}
		return a
	case array:
		a := make(array, len(v))
		for i := range v {
			a[i] = copyVal(v[i])
		}
		return a
	}
	return v
}

// store stores v into *addr, preserving the identity of nested slots (so
// pointers into aggregates stay valid).
func store(T types.Type, addr *value, v value) {
	switch rhs := v.(type) {
	case structure:
		lhs, ok := (*addr).(structure)
		if !ok || len(lhs) != len(rhs) {
			*addr = copyVal(v)
			return
		}
		for i := range lhs {
			store(nil, &lhs[i], rhs[i])
		}
	case array:
		lhs, ok := (*addr).(array)
		if !ok || len(lhs) != len(rhs) {
			*addr = copyVal(v)
			return
		}
		for i := range lhs {
			store(nil, &lhs[i], rhs[i])
		}
	default:
		*addr = v
	}
}

// ---------------------------------------------------------------- printing

func writeValue(buf *bytes.Buffer, v value, depth int) {
	if depth > 6 {
		buf.WriteString("…")
		return
	}
	switch v := v.(type) {
	case nil, bool, int, int8, int16, int32, int64, uint, uint8, uint16, uint32, uint64, uintptr, float32, float64, complex64, complex128:
		fmt.Fprintf(buf, "%v", v)
	case string:
		fmt.Fprintf(buf, "%q", v)
	case *Term:
		s := v.String()
		if len(s) > 80 {
			s = s[:80] + "…"
		}
		buf.WriteString("⟨" + s + "⟩")
	case *SymStr:
		buf.WriteString("sym\"")
		for _, b := range v.b {
			if c, ok := b.(uint8); ok {
				fmt.Fprintf(buf, "%s", strings.Trim(fmt.Sprintf("%q", string(rune(c))), "\""))
			} else {
				buf.WriteString("?")
			}
		}
		buf.WriteString("\"")
	case *Map:
		buf.WriteString("map[")
		if v != nil {
			for i, e := range v.entries {
				if i > 0 {
					buf.WriteString(" ")
				}
				writeValue(buf, e.key, depth+1)
				buf.WriteString(":")
				writeValue(buf, e.val, depth+1)
			}
		}
		buf.WriteString("]")
	case *Chan:
		fmt.Fprintf(buf, "chan(%p)", v)
	case *value:
		if v == nil {
			buf.WriteString("<nil>")
		} else {
			fmt.Fprintf(buf, "&")
			writeValue(buf, *v, depth+1)
		}
	case iface:
		if v.t == nil {
			buf.WriteString("nil-iface")
			return
		}
		fmt.Fprintf(buf, "(%s, ", v.t)
		writeValue(buf, v.v, depth+1)
		buf.WriteString(")")
	case structure:
		buf.WriteString("{")
		for i, e := range v {
			if i > 0 {
				buf.WriteString(" ")
			}
			writeValue(buf, e, depth+1)
		}
		buf.WriteString("}")
	case array:
		buf.WriteString("[")
		for i, e := range v {
			if i > 0 {
				buf.WriteString(" ")
			}
			writeValue(buf, e, depth+1)
		}
		buf.WriteString("]")
	case []value:
		if bs, ok := concBytes(v); ok && len(v) > 0 {
			fmt.Fprintf(buf, "bytes(%x)", bs)
			return
		}
		buf.WriteString("[")
		for i, e := range v {
			if i > 0 {
				buf.WriteString(" ")
			}
			writeValue(buf, e, depth+1)
		}
		buf.WriteString("]")
	case *ssa.Function:
		if v == nil {
			buf.WriteString("func(nil)")
		} else {
			buf.WriteString("func " + v.String())
		}
	case *ssa.Builtin, *closure, *nativeFunc:
		fmt.Fprintf(buf, "func(%p)", v)
	case tuple:
		buf.WriteString("(")
		for i, e := range v {
			if i > 0 {
				buf.WriteString(", ")
			}
			writeValue(buf, e, depth+1)
		}
		buf.WriteString(")")
	default:
		fmt.Fprintf(buf, "<%T>", v)
	}
}

func toString(v value) string {
	var b bytes.Buffer
	writeValue(&b, v, 0)
	return b.String()
}
