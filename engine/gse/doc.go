// Command gse is a path-forking symbolic executor for go/ssa with an SMT back end.
// Parts of the concrete interpreter core are derived from golang.org/x/tools/go/ssa/interp (BSD licence).
package main
