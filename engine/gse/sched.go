package main

// Goroutines as coroutines: each interpreted goroutine runs on a real
// goroutine but only the holder of the baton executes. Deterministic mode
// runs the current goroutine until it blocks; exploring mode takes a
// structural choice at every synchronisation point.

import (
	"fmt"
	"go/token"
	"go/types"

	"golang.org/x/tools/go/ssa"
)

type gthread struct {
	id      int
	resume  chan int // 0 run, 1 kill, 2 deadlock (main only), 3 foreign abort (main only)
	exited  chan struct{}
	started bool
	done    bool
	pred    func() bool // nil: runnable; else must be true to proceed
	fn      value
	args    []value
	what    string
	locks   map[interface{}]bool // lockset (monitor)
	vc      int
	clk     vclock // vector clock (monitor)
}

type killThread struct{}

type Chan struct {
	cap     int
	elem    types.Type
	buf     []value
	closed  bool
	slot    value // unbuffered hand-off
	full    bool
	recvW   int
	taken   int
	deposit int
}

func (m *machine) initThreads() {
	main := &gthread{id: 0, resume: make(chan int, 1), started: true, what: "main"}
	m.threads = []*gthread{main}
	m.cur = main
	m.nextTid = 1
}

func (m *machine) spawn(fr *frame, fn value, args []value, pos token.Pos) {
	t := &gthread{id: m.nextTid, resume: make(chan int, 1), exited: make(chan struct{}), fn: fn, args: args}
	m.nextTid++
	if f, ok := fn.(*ssa.Function); ok && f != nil {
		t.what = f.String()
	} else if c, ok := fn.(*closure); ok {
		t.what = c.Fn.String()
	}
	m.threads = append(m.threads, t)
	if len(m.threads) > 64 {
		m.abort("unwind", "more than 64 goroutines")
	}
	m.hbSpawn(fr.th, t)
	if m.exploring {
		m.schedPoint(fr)
	}
}

func (t *gthread) runnable() bool {
	return !t.done && (t.pred == nil || t.pred())
}

func (m *machine) startThread(t *gthread) {
	t.started = true
	go func() {
		defer close(t.exited)
		sig := <-t.resume
		if sig == 1 {
			return
		}
		var foreign interface{}
		func() {
			defer func() {
				if r := recover(); r != nil {
					if _, ok := r.(killThread); ok {
						foreign = r
						return
					}
					foreign = r
				}
			}()
			call(m, &frame{m: m, th: t}, token.NoPos, t.fn, t.args)
		}()
		t.done = true
		if _, ok := foreign.(killThread); ok {
			return
		}
		if foreign != nil {
			// transfer to main: uncaught panic / abort / engine error in goroutine
			if tp, ok := foreign.(targetPanic); ok {
				foreign = pathAbort{"panic", "goroutine " + t.what + ": " + panicString(m, tp)}
			}
			m.foreign = foreign
			m.cur = m.threads[0]
			m.threads[0].resume <- 3
			return
		}
		m.handOff(t)
	}()
}

// handOff passes the baton from a finished or blocked thread to the next
// runnable one.
func (m *machine) handOff(from *gthread) {
	next := m.pickNext(from)
	if next == nil {
		// everything blocked: deadlock
		m.cur = m.threads[0]
		if from.id == 0 {
			m.abort("deadlock", m.deadlockInfo())
		}
		m.threads[0].resume <- 2
		return
	}
	m.transfer(next)
}

func (m *machine) transfer(next *gthread) {
	m.cur = next
	if !next.started {
		m.startThread(next)
	}
	next.resume <- 0
}

func (m *machine) deadlockInfo() string {
	s := "all goroutines blocked:"
	for _, t := range m.threads {
		if !t.done {
			s += fmt.Sprintf(" [%d %s]", t.id, t.what)
		}
	}
	return s
}

func (m *machine) runnableThreads() []*gthread {
	var out []*gthread
	for _, t := range m.threads {
		if t.runnable() {
			out = append(out, t)
		}
	}
	return out
}

func (m *machine) pickNext(except *gthread) *gthread {
	var cands []*gthread
	for _, t := range m.threads {
		if t != except && t.runnable() {
			cands = append(cands, t)
		}
	}
	if len(cands) == 0 {
		return nil
	}
	if m.exploring {
		return cands[m.choose(len(cands), "sched")]
	}
	// deterministic: prefer non-main (oldest first), then main
	for _, t := range cands {
		if t.id != 0 {
			return t
		}
	}
	return cands[0]
}

// wait parks the current thread until it is resumed.
func (m *machine) park(self *gthread) {
	sig := <-self.resume
	switch sig {
	case 1:
		panic(killThread{})
	case 2:
		m.abort("deadlock", m.deadlockInfo())
	case 3:
		f := m.foreign
		m.foreign = nil
		panic(f)
	}
}

// block suspends the current thread until pred holds.
func (m *machine) block(fr *frame, pred func() bool) {
	self := fr.th
	if self == nil {
		self = m.cur
	}
	for !pred() {
		self.pred = pred
		next := m.pickNext(self)
		if next == nil {
			self.pred = nil
			m.abortFrom(self, "deadlock", m.deadlockInfo())
		}
		m.transfer(next)
		m.park(self)
		self.pred = nil
	}
}

// abortFrom aborts the path from any thread.
func (m *machine) abortFrom(self *gthread, kind, msg string) {
	panic(pathAbort{kind, msg})
}

// schedPoint is a potential preemption point (exploring mode only).
func (m *machine) schedPoint(fr *frame) {
	if !m.exploring {
		return
	}
	self := fr.th
	if self == nil {
		self = m.cur
	}
	rs := m.runnableThreads()
	if len(rs) <= 1 {
		return
	}
	if m.preemptions >= m.preemptMax {
		return
	}
	c := m.choose(len(rs), "sched")
	if rs[c] == self {
		return
	}
	m.preemptions++
	m.transfer(rs[c])
	m.park(self)
}

// yield lets other runnable goroutines run (runtime.Gosched, time.Sleep).
func (m *machine) yield(fr *frame) {
	self := fr.th
	if self == nil {
		self = m.cur
	}
	if m.exploring {
		m.schedPoint(fr)
		return
	}
	next := m.pickNext(self)
	if next == nil || next.id == 0 && self.id != 0 {
		if next == nil {
			return
		}
	}
	m.transfer(next)
	m.park(self)
}

// quiesce runs all other goroutines until they are done or blocked.
func (m *machine) quiesce(fr *frame) {
	self := fr.th
	if self == nil {
		self = m.cur
	}
	for {
		next := m.pickNext(self)
		if next == nil {
			m.hbJoinAll(fr)
			return
		}
		// we stay runnable; the others hand the baton back when they block
		self.pred = nil
		m.transfer(next)
		m.park(self)
	}
}

// killAll terminates every other goroutine at the end of a path.
func (m *machine) killAll() {
	for _, t := range m.threads {
		if t.id == 0 || !t.started {
			continue
		}
		select {
		case <-t.exited:
			continue
		default:
		}
		if !t.done {
			t.resume <- 1
		}
		<-t.exited
	}
}

// ---------------------------------------------------------------- channels

func chanSend(fr *frame, ch *Chan, v value) {
	chanSend0(fr, ch, v)
	fr.m.syncGlobal(fr)
}

func chanSend0(fr *frame, ch *Chan, v value) {
	m := fr.m
	if ch == nil {
		m.block(fr, func() bool { return false })
	}
	m.schedPoint(fr)
	m.syncGlobal(fr)
	if ch.closed {
		m.runtimePanic("send on closed channel")
	}
	if ch.cap > 0 {
		m.block(fr, func() bool { return len(ch.buf) < ch.cap || ch.closed })
		if ch.closed {
			m.runtimePanic("send on closed channel")
		}
		ch.buf = append(ch.buf, copyVal(v))
		return
	}
	m.block(fr, func() bool { return !ch.full || ch.closed })
	if ch.closed {
		m.runtimePanic("send on closed channel")
	}
	ch.slot, ch.full = copyVal(v), true
	ch.deposit++
	my := ch.deposit
	m.block(fr, func() bool { return ch.taken >= my || ch.closed })
}

func chanRecv(fr *frame, ch *Chan, commaOk bool, elem types.Type) value {
	m := fr.m
	if ch == nil {
		m.block(fr, func() bool { return false })
	}
	m.schedPoint(fr)
	ch.recvW++
	m.block(fr, func() bool { return len(ch.buf) > 0 || ch.full || ch.closed })
	ch.recvW--
	var v value
	ok := true
	switch {
	case len(ch.buf) > 0:
		v = ch.buf[0]
		ch.buf = ch.buf[1:]
	case ch.full:
		v = ch.slot
		ch.full = false
		ch.slot = nil
		ch.taken++
	default:
		v = zero(elem)
		ok = false
	}
	m.syncGlobal(fr)
	if commaOk {
		return tuple{v, ok}
	}
	return v
}

func chanClose(fr *frame, ch *Chan) {
	if ch == nil {
		fr.m.runtimePanic("close of nil channel")
	}
	if ch.closed {
		fr.m.runtimePanic("close of closed channel")
	}
	ch.closed = true
	fr.m.syncGlobal(fr)
}

func selectOp(fr *frame, instr *ssa.Select) value {
	fr.m.syncGlobal(fr)
	r := selectOp0(fr, instr)
	fr.m.syncGlobal(fr)
	return r
}

func selectOp0(fr *frame, instr *ssa.Select) value {
	m := fr.m
	m.schedPoint(fr)
	type st struct {
		ch   *Chan
		send bool
		v    value
	}
	var states []st
	for _, s := range instr.States {
		x := st{send: s.Dir == types.SendOnly}
		x.ch, _ = fr.get(s.Chan).(*Chan)
		if x.send {
			x.v = fr.get(s.Send)
		}
		states = append(states, x)
	}
	ready := func() []int {
		var r []int
		for i, s := range states {
			if s.ch == nil {
				continue
			}
			if s.send {
				if s.ch.closed || (s.ch.cap > 0 && len(s.ch.buf) < s.ch.cap) || (s.ch.cap == 0 && !s.ch.full && s.ch.recvW > 0) {
					r = append(r, i)
				}
			} else if len(s.ch.buf) > 0 || s.ch.full || s.ch.closed {
				r = append(r, i)
			}
		}
		return r
	}
	rs := ready()
	chosen := -1
	if len(rs) == 0 {
		if !instr.Blocking {
			chosen = -1
		} else {
			for _, s := range states {
				if s.ch != nil && !s.send {
					s.ch.recvW++
				}
			}
			m.block(fr, func() bool { return len(ready()) > 0 })
			for _, s := range states {
				if s.ch != nil && !s.send {
					s.ch.recvW--
				}
			}
			rs = ready()
		}
	}
	if len(rs) > 0 {
		if m.exploring {
			chosen = rs[m.choose(len(rs), "select")]
		} else {
			chosen = rs[0]
		}
	}
	recvOk := false
	var recvVal value
	if chosen >= 0 {
		s := states[chosen]
		if s.send {
			if s.ch.closed {
				m.runtimePanic("send on closed channel")
			}
			if s.ch.cap > 0 {
				s.ch.buf = append(s.ch.buf, copyVal(s.v))
			} else {
				s.ch.slot, s.ch.full = copyVal(s.v), true
				s.ch.deposit++
			}
		} else {
			switch {
			case len(s.ch.buf) > 0:
				recvVal, recvOk = s.ch.buf[0], true
				s.ch.buf = s.ch.buf[1:]
			case s.ch.full:
				recvVal, recvOk = s.ch.slot, true
				s.ch.full, s.ch.slot = false, nil
				s.ch.taken++
			}
		}
	}
	r := tuple{chosen, recvOk}
	for i, s := range instr.States {
		if s.Dir == types.RecvOnly {
			if i == chosen && recvOk {
				r = append(r, recvVal)
			} else {
				r = append(r, zero(s.Chan.Type().Underlying().(*types.Chan).Elem()))
			}
		}
	}
	return r
}

// ---------------------------------------------------------------- race monitor hooks (filled in race.go)
