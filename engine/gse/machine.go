package main

// machine: the per-path execution state (path condition, decision trace,
// solver handle, term store, goroutines) and the split primitives.

import (
	"fmt"
	"go/types"
	"math/big"
	"os"
	"sort"
	"strings"

	"golang.org/x/tools/go/ssa"
)

// engineError: a defect or limitation of the engine itself; makes the run inconclusive.
type engineError struct{ msg string }

func (e engineError) Error() string { return "engine: " + e.msg }

// pathAbort unwinds the current path.
type pathAbort struct {
	kind string // "infeasible", "assume", "unsupported", "unwind", "violation-stop", "done"
	msg  string
}

// targetPanic: the program under test panicked with value v.
type targetPanic struct {
	v value
}

type decision struct {
	Kind   byte       `json:"k"` // 'b' bool, 'v' concretised value, 'c' n-ary choice
	B      bool       `json:"b,omitempty"`
	Forced bool       `json:"f,omitempty"`
	Val    *big.Int   `json:"v,omitempty"`
	Excl   []*big.Int `json:"x,omitempty"` // open 'v' alternative: pick a value not in Excl
	Open   bool       `json:"o,omitempty"`
	N      int        `json:"n,omitempty"`
	C      int        `json:"c,omitempty"`
	Tag    string     `json:"t,omitempty"`
}

type symVar struct {
	Name string
	Kind string // "int","bool","byte"
	T    *Term
}

type assertRec struct {
	Label     string
	Discharge int // number of solver-discharged (non-constant) checks
	Trivial   int // concretely true
}

type violation struct {
	Harness  string
	Label    string
	Msg      string
	Class    string // known-finding class or ""
	Vars     []replayVar
	Choices  []int
	Trace    []decision
	PanicMsg string
	Pos      string
}

type replayVar struct {
	Name string `json:"name"`
	Kind string `json:"kind"`
	Val  string `json:"val"`
}

type pathResult struct {
	outcome       string // "ok","infeasible","assume","unsupported","unwind","panic","engine-error","violation"
	msg           string
	trace         []decision
	alts          [][]decision
	violations    []violation
	covers        map[string]bool
	asserts       map[string]*assertRec
	observes      []string
	nInstr        int64
	funcs         map[*ssa.Function]int64
	nontrivial    bool
	unknowns      int
	pcSize        int
	sampleModel   []replayVar
	sampleChoices []int
	hasSample     bool
	initSkipped   int
}

type machine struct {
	eng    *engine
	ts     *TermStore
	sol    *Solver
	prefix []decision
	pos    int
	trace  []decision
	alts   [][]decision

	pc     []*Term
	pcSent int

	vars    []symVar
	choices []int

	globals map[*ssa.Global]*value
	race    *raceState
	inited  map[*ssa.Package]bool

	res *pathResult

	known map[string]*Term // class -> predicate (disjunction so far)

	// goroutines
	threads   []*gthread
	cur       *gthread
	nextTid   int
	exploring bool // exploring scheduler mode

	nInstr     int64
	maxInstr   int64
	depth      int
	loopCounts map[*ssa.BasicBlock]int
	unwindMax  int
	splitMax   int

	clock     value // stub clock (int64 ns or *Term)
	uniq      int
	models    *modelState
	stopOnVio bool
	concrete  *concreteFeed // non-nil in concrete (differential / replay-in-engine) mode

	permuteMaps  int
	permuteOff   bool // harness bracket: vrt.PermuteMaps(false) .. vrt.PermuteMaps(true)
	prov         map[*Term]provenance
	nonnegCache  map[*Term]bool
	spec         bool
	noMerge      bool
	merges       int
	decidedTerms map[*Term]bool
	model        map[string]*big.Int
	modelPC      int
	inInit       int
	stack        []*ssa.Function
	preemptMax   int
	preemptions  int
	foreign      interface{}
}

// concreteFeed supplies concrete values for vrt nondeterminism.
type concreteFeed struct {
	vars    []replayVar
	vi      int
	choices []int
	ci      int
	allC    []int // every structural choice of the recorded run, in order (any tag)
	ai      int
}

func (m *machine) fresh(prefix string) string {
	m.uniq++
	return fmt.Sprintf("%s%d", prefix, m.uniq)
}

// ---------------------------------------------------------------- path condition

func (m *machine) addPC(t *Term) {
	if t.IsTrue() {
		return
	}
	// the model stays valid if it satisfies the new conjunct
	if m.model != nil && m.modelPC == len(m.pc) && !t.app {
		if t.eval(m.model, map[*Term]*big.Int{}).Sign() != 0 {
			m.modelPC++
		}
	}
	m.pc = append(m.pc, t)
}

func (m *machine) flushPC() {
	for m.pcSent < len(m.pc) {
		m.sol.Assert(m.ts, m.pc[m.pcSent])
		m.pcSent++
	}
}

func (m *machine) check(extra ...*Term) SatResult {
	m.flushPC()
	r, _ := m.sol.Check(m.ts, extra, false, nil)
	if r == Unknown {
		m.res.unknowns++
	}
	return r
}

func (m *machine) checkModel(extra ...*Term) (SatResult, map[string]*big.Int) {
	m.flushPC()
	vs := make([]*Term, 0, len(m.vars))
	for _, v := range m.vars {
		vs = append(vs, v.T)
	}
	r, model := m.sol.Check(m.ts, extra, true, vs)
	if r == Unknown {
		m.res.unknowns++
	}
	return r, model
}

func (m *machine) abort(kind, msg string) {
	if m.spec {
		panic(specBail{})
	}
	panic(pathAbort{kind, msg})
}

func (m *machine) unsupported(what string) {
	m.abort("unsupported", what+m.stackString())
}

func (m *machine) stackString() string {
	var sb strings.Builder
	sb.WriteString("\n  stack:")
	for i := len(m.stack) - 1; i >= 0 && i >= len(m.stack)-8; i-- {
		sb.WriteString(" <- " + m.stack[i].String())
	}
	return sb.String()
}

// ---------------------------------------------------------------- splits

// decide resolves a symbolic boolean on the current path.
func (m *machine) decide(c *Term) bool {
	if c.IsTrue() {
		return true
	}
	if c.IsFalse() {
		return false
	}
	// a condition already decided on this path needs no decision record
	if v, ok := m.decidedTerms[c]; ok {
		return v
	}
	r := m.decide1(c)
	if m.decidedTerms == nil {
		m.decidedTerms = map[*Term]bool{}
	}
	m.decidedTerms[c] = r
	m.decidedTerms[m.ts.Not(c)] = !r
	return r
}

func (m *machine) decide1(c *Term) bool {
	if m.spec {
		panic(specBail{})
	}
	if m.pos < len(m.prefix) {
		d := m.prefix[m.pos]
		if d.Kind != 'b' {
			panic(engineError{fmt.Sprintf("decision replay mismatch at %d: want bool, have %c", m.pos, d.Kind)})
		}
		m.pos++
		m.trace = append(m.trace, d)
		if !d.Forced {
			if d.B {
				m.addPC(c)
			} else {
				m.addPC(m.ts.Not(c))
			}
		}
		return d.B
	}
	m.pos++
	nc := m.ts.Not(c)
	// use the current model of the path condition to save one query
	if mv := m.evalModel(c); mv != 0 {
		follow := mv > 0
		other := nc
		if !follow {
			other = c
		}
		ro := m.check(other)
		if ro == Unsat {
			m.trace = append(m.trace, decision{Kind: 'b', B: follow, Forced: true})
			return follow
		}
		alt := append(append([]decision{}, m.trace...), decision{Kind: 'b', B: !follow})
		m.alts = append(m.alts, alt)
		m.trace = append(m.trace, decision{Kind: 'b', B: follow})
		if follow {
			m.addPC(c)
		} else {
			m.addPC(nc)
		}
		return follow
	}
	rt, model := m.checkModelAll(c)
	if rt == Unsat {
		m.trace = append(m.trace, decision{Kind: 'b', B: false, Forced: true})
		return false
	}
	rf := m.check(nc)
	if rf == Unsat {
		m.trace = append(m.trace, decision{Kind: 'b', B: true, Forced: true})
		if rt == Sat {
			m.model = model
		}
		return true
	}
	// both feasible (or unknown): follow true, enqueue false
	alt := append(append([]decision{}, m.trace...), decision{Kind: 'b', B: false})
	m.alts = append(m.alts, alt)
	m.trace = append(m.trace, decision{Kind: 'b', B: true})
	m.addPC(c)
	if rt == Sat {
		m.model = model
	} else {
		m.model = nil
	}
	return true
}

// evalModel evaluates a boolean term under the current model of the path
// condition: +1 true, -1 false, 0 no usable model.
func (m *machine) evalModel(c *Term) int {
	if m.model == nil || c.app || m.modelPC != len(m.pc) {
		if c.app {
			return 0
		}
		// (re-)establish a model for the current path condition
		r, model := m.checkModelAll()
		if r != Sat {
			m.model = nil
			return 0
		}
		m.model = model
		m.modelPC = len(m.pc)
	}
	v := c.eval(m.model, map[*Term]*big.Int{})
	if v.Sign() != 0 {
		return 1
	}
	return -1
}

func (m *machine) checkModelAll(extra ...*Term) (SatResult, map[string]*big.Int) {
	m.flushPC()
	r, model := m.sol.Check(m.ts, extra, true, m.ts.vars)
	if r == Unknown {
		m.res.unknowns++
	}
	return r, model
}

// truth converts a bool-valued value to a concrete bool, splitting if needed.
func (m *machine) truth(v value) bool {
	switch v := v.(type) {
	case bool:
		return v
	case *Term:
		return m.decide(v)
	}
	panic(engineError{fmt.Sprintf("truth: %T", v)})
}

// choose makes an n-ary structural choice (no solver involved).
func (m *machine) choose(n int, tag string) int {
	if n <= 1 {
		return 0
	}
	if m.spec {
		panic(specBail{})
	}
	if m.concrete != nil {
		// concrete re-execution: structural choices (harness choices, schedule, map orders) come from the feed
		f := m.concrete
		if f.ai >= len(f.allC) {
			return 0
		}
		c := f.allC[f.ai]
		f.ai++
		if c >= n {
			panic(engineError{fmt.Sprintf("concrete feed: choice %d out of range %d (tag %s)", c, n, tag)})
		}
		m.trace = append(m.trace, decision{Kind: 'c', N: n, C: c, Tag: tag})
		return c
	}
	if m.pos < len(m.prefix) {
		d := m.prefix[m.pos]
		if d.Kind != 'c' || d.N != n {
			panic(engineError{fmt.Sprintf("decision replay mismatch at %d: want choice/%d, have %c/%d", m.pos, n, d.Kind, d.N)})
		}
		m.pos++
		m.trace = append(m.trace, d)
		return d.C
	}
	m.pos++
	for i := 1; i < n; i++ {
		alt := append(append([]decision{}, m.trace...), decision{Kind: 'c', N: n, C: i, Tag: tag})
		m.alts = append(m.alts, alt)
	}
	m.trace = append(m.trace, decision{Kind: 'c', N: n, C: 0, Tag: tag})
	return 0
}

// concretize splits on the feasible values of an integer term.
func (m *machine) concretize(t *Term, why string) *big.Int {
	if t.IsConst() {
		return t.Val
	}
	if m.spec {
		panic(specBail{})
	}
	var excl []*big.Int
	if m.pos < len(m.prefix) {
		d := m.prefix[m.pos]
		if d.Kind != 'v' {
			panic(engineError{fmt.Sprintf("decision replay mismatch at %d: want value, have %c", m.pos, d.Kind)})
		}
		if !d.Open {
			m.pos++
			m.trace = append(m.trace, d)
			m.addPC(m.ts.Eq(t, m.ts.IntBig(d.Val)))
			return d.Val
		}
		excl = d.Excl
	}
	m.pos++
	if len(excl) >= m.splitMax {
		m.abort("unwind", fmt.Sprintf("split limit %d exceeded concretising %s", m.splitMax, why))
	}
	var ex []*Term
	for _, e := range excl {
		ex = append(ex, m.ts.Not(m.ts.Eq(t, m.ts.IntBig(e))))
	}
	// ask for a value
	if os.Getenv("GSE_DEBUG_CONC") != "" {
		st := ""
		for i := len(m.stack) - 1; i >= 0 && i >= len(m.stack)-6; i-- {
			st += " <- " + m.stack[i].String()
		}
		fmt.Fprintf(os.Stderr, "CONC %s term=%s%s\n", why, t.String(), st)
	}
	m.flushPC()
	r, model := m.sol.Check(m.ts, ex, true, []*Term{t})
	if r == Unsat {
		m.abort("infeasible", "no further value for "+why)
	}
	if r == Unknown {
		m.res.unknowns++
		m.abort("unsupported", "solver unknown while concretising "+why)
	}
	val, ok := model[t.ref()]
	if !ok {
		panic(engineError{"concretize: no value in model for " + t.ref()})
	}
	nex := append(append([]*big.Int{}, excl...), val)
	alt := append(append([]decision{}, m.trace...), decision{Kind: 'v', Open: true, Excl: nex})
	m.alts = append(m.alts, alt)
	m.trace = append(m.trace, decision{Kind: 'v', Val: val})
	m.addPC(m.ts.Eq(t, m.ts.IntBig(val)))
	return val
}

func (t *Term) hasApp() bool {
	seen := map[*Term]bool{}
	var rec func(x *Term) bool
	rec = func(x *Term) bool {
		if seen[x] {
			return false
		}
		seen[x] = true
		if x.Op == OpApp {
			return true
		}
		for _, a := range x.Args {
			if rec(a) {
				return true
			}
		}
		return false
	}
	return rec(t)
}

func (m *machine) leafVars(t *Term) []*Term {
	seen := map[*Term]bool{}
	var out []*Term
	var rec func(x *Term)
	rec = func(x *Term) {
		if seen[x] {
			return
		}
		seen[x] = true
		if x.Op == OpVar {
			out = append(out, x)
		}
		for _, a := range x.Args {
			rec(a)
		}
	}
	rec(t)
	return out
}

// concInt returns a concrete int64 for an integer value, splitting if symbolic.
func (m *machine) concInt(v value, why string) int64 {
	if t, ok := v.(*Term); ok {
		b := m.concretize(t, why)
		if b.IsInt64() {
			return b.Int64()
		}
		return int64(b.Uint64())
	}
	return asInt64(v)
}

// ---------------------------------------------------------------- symbolic inputs

func (m *machine) newIntVar(name string, lo, hi *big.Int, kind string) *Term {
	t := m.ts.Var(name, SInt, lo, hi)
	m.vars = append(m.vars, symVar{Name: name, Kind: kind, T: t})
	return t
}

func (m *machine) newBoolVar(name string) *Term {
	t := m.ts.Var(name, SBool, nil, nil)
	m.vars = append(m.vars, symVar{Name: name, Kind: "bool", T: t})
	return t
}

// internal (model) variables are not part of the replay vector
func (m *machine) newInternalInt(name string, lo, hi *big.Int) *Term {
	return m.ts.Var(name, SInt, lo, hi)
}

func (m *machine) modelVars(model map[string]*big.Int) []replayVar {
	out := make([]replayVar, 0, len(m.vars))
	for _, v := range m.vars {
		val := model[v.T.Name]
		if val == nil {
			val = big.NewInt(0)
			if v.T.Lo != nil {
				val = v.T.Lo
			}
		}
		out = append(out, replayVar{Name: v.Name, Kind: v.Kind, Val: val.String()})
	}
	return out
}

func (m *machine) choiceList() []int {
	var out []int
	for _, d := range m.trace {
		if d.Kind == 'c' && d.Tag == "choice" {
			out = append(out, d.C)
		}
	}
	return out
}

// ---------------------------------------------------------------- assertions

func (m *machine) recordViolation(label, msg, class string, model map[string]*big.Int, pos string) {
	v := violation{Label: label, Msg: msg, Class: class, Pos: pos}
	v.Vars = m.modelVars(model)
	v.Choices = m.choiceList()
	v.Trace = append([]decision{}, m.trace...)
	m.res.violations = append(m.res.violations, v)
}

// assertCond implements vrt.Assert.
func (m *machine) assertCond(c value, label string, pos string) {
	rec := m.res.asserts[label]
	if rec == nil {
		rec = &assertRec{Label: label}
		m.res.asserts[label] = rec
	}
	var ct *Term
	switch c := c.(type) {
	case bool:
		if c {
			rec.Trivial++
			if len(m.known) > 0 {
				m.known = map[string]*Term{}
			}
			return
		}
		ct = m.ts.False
	case *Term:
		ct = c
	}
	neg := m.ts.Not(ct)
	// known classes
	var classes []string
	for k := range m.known {
		classes = append(classes, k)
	}
	sort.Strings(classes)
	var notKnown []*Term
	for _, k := range classes {
		notKnown = append(notKnown, m.ts.Not(m.known[k]))
	}
	// (i) new violation outside all known classes
	r, model := m.checkModel(append([]*Term{neg}, notKnown...)...)
	switch r {
	case Sat:
		m.recordViolation(label, "assertion can fail", "", model, pos)
	case Unknown:
		m.res.msg = "solver unknown on assertion " + label
		m.abort("unsupported", "solver unknown on assertion "+label)
	default:
		rec.Discharge++
		m.res.nontrivial = true
	}
	// (ii) witnesses for known classes
	for _, k := range classes {
		r, model := m.checkModel(neg, m.known[k])
		if r == Sat {
			m.recordViolation(label, "assertion can fail (known class)", k, model, pos)
		}
	}
	// known-class predicates are scoped to the assertion that follows them
	if len(m.known) > 0 {
		m.known = map[string]*Term{}
	}
	// continue under the assumption that the assertion held
	if ct.IsFalse() {
		if r != Sat && len(classes) > 0 {
			// concretely false but entirely inside known classes: keep going so that
			// later assertions on this path are still examined
			return
		}
		m.abort("violation-stop", label)
	}
	if r == Sat || len(classes) > 0 {
		if m.check(ct) == Unsat {
			m.abort("violation-stop", label)
		}
	}
	m.addPC(ct)
}

func (m *machine) assume(c value) {
	switch c := c.(type) {
	case bool:
		if !c {
			m.abort("assume", "")
		}
	case *Term:
		if m.pos < len(m.prefix) {
			// inside the replayed prefix feasibility is already known
			m.addPC(c)
			return
		}
		if m.check(c) == Unsat {
			m.abort("assume", "")
		}
		m.addPC(c)
	}
}

func (m *machine) cover(label string, c value) {
	if _, ok := m.res.covers[label]; !ok {
		m.res.covers[label] = false
	}
	switch c := c.(type) {
	case bool:
		if c {
			m.res.covers[label] = true
		}
	case *Term:
		if m.res.covers[label] {
			return
		}
		if m.check(c) == Sat {
			m.res.covers[label] = true
		}
	}
}

func (m *machine) addKnown(class string, c value) {
	var t *Term
	switch c := c.(type) {
	case bool:
		t = m.ts.Bool(c)
	case *Term:
		t = c
	}
	if old, ok := m.known[class]; ok {
		t = m.ts.Or(old, t)
	}
	m.known[class] = t
}

// ---------------------------------------------------------------- misc

func typeString(t types.Type) string {
	return types.TypeString(t, nil)
}

func shortPos(prog *ssa.Program, instr ssa.Instruction) string {
	if instr == nil {
		return ""
	}
	p := prog.Fset.Position(instr.Pos())
	if !p.IsValid() {
		return instr.Parent().String()
	}
	f := p.Filename
	if i := strings.Index(f, "/repo/"); i >= 0 {
		f = f[i+6:]
	}
	return fmt.Sprintf("%s:%d", f, p.Line)
}

// provenance records that a byte/digit term is piece idx of n of an encoding
// of src, so that the matching decoder can return src without arithmetic.
type provenance struct {
	kind string // "varint", "bigbytes", "decimal"
	src  *Term
	idx  int
	n    int
}

func (m *machine) setProv(t value, p provenance) {
	tt, ok := t.(*Term)
	if !ok || tt.IsConst() {
		return
	}
	if m.prov == nil {
		m.prov = map[*Term]provenance{}
	}
	if _, dup := m.prov[tt]; !dup {
		m.prov[tt] = p
	}
}

// wholeProv: do the n values b[0..n) form, in order, the complete encoding of one source?
func (m *machine) wholeProv(b []value, kind string) (*Term, bool) {
	if len(b) == 0 || m.prov == nil {
		return nil, false
	}
	var src *Term
	for i, x := range b {
		t, ok := x.(*Term)
		if !ok {
			return nil, false
		}
		p, ok := m.prov[t]
		if !ok || p.kind != kind || p.idx != i || p.n != len(b) {
			return nil, false
		}
		if i == 0 {
			src = p.src
		} else if p.src != src {
			return nil, false
		}
	}
	return src, true
}
