package main

import (
	"encoding/json"
	"flag"
	"fmt"
	"go/types"
	"os"
	"os/exec"
	"path/filepath"
	"runtime/debug"
	"sort"
	"strings"
	"sync"
	"sync/atomic"
	"time"

	"golang.org/x/tools/go/packages"
	"golang.org/x/tools/go/ssa"
	"golang.org/x/tools/go/ssa/ssautil"
)

type engine struct {
	prog             *ssa.Program
	pkgs             []*ssa.Package
	repo             string
	overlayDir       string
	runtimeErrorType types.Type
	trace            bool
	models           map[string]modelFn
	interpPrefixes   []string
	interpExact      map[string]bool
	cfg              config
	loadSecs         float64
	cfgDebugGlobals  bool
	skipInit         map[string]bool
	okSeen, sampled  int64
}

type config struct {
	Workers     int
	TimeoutMs   int
	Unwind      int
	SplitMax    int
	MaxPaths    int
	MaxInstr    int64
	PermuteMaps int
	Explore     bool
	Race        bool
	PreemptMax  int
	Solver      string
	StopOnVio   bool
	Grace       time.Duration
	Deadline    time.Duration
	Samples     int
	Seed        int64
}

const modPath = "github.com/xuperchain/xupercore"

func (e *engine) interpreted(path string) bool {
	if e.interpExact[path] {
		return true
	}
	for _, p := range e.interpPrefixes {
		if strings.HasPrefix(path, p) {
			return true
		}
	}
	return false
}

func buildOverlay(repo, dir string) (map[string][]byte, error) {
	ov := map[string][]byte{}
	if dir == "" {
		return ov, nil
	}
	err := filepath.Walk(dir, func(p string, info os.FileInfo, err error) error {
		if err != nil {
			return err
		}
		if info.IsDir() {
			return nil
		}
		if !strings.HasSuffix(p, ".go") || strings.HasSuffix(p, "_test.go") {
			return nil
		}
		rel, _ := filepath.Rel(dir, p)
		b, err := os.ReadFile(p)
		if err != nil {
			return err
		}
		ov[filepath.Join(repo, rel)] = b
		return nil
	})
	return ov, err
}

// pureGoFallbacks: libraries whose hot functions are assembly on amd64 ship a pure-Go file with the
// same functions for other platforms; for analysis the file that declares the assembly stubs is
// overlaid with that pure-Go file (build constraints stripped), so the bodies are interpretable.
// Same codec, different implementation of its inner loops: stated in DESIGN.md.
func pureGoFallbacks(repo string, ov map[string][]byte) {
	for _, fb := range []struct {
		mod   string
		pairs [][2]string
	}{
		{"github.com/golang/snappy", [][2]string{{"encode_asm.go", "encode_other.go"}, {"decode_asm.go", "decode_other.go"}}},
	} {
		cmd := exec.Command("go", "list", "-m", "-f", "{{.Dir}}", fb.mod)
		cmd.Dir = repo
		cmd.Env = append(os.Environ(), "GOFLAGS=-mod=mod", "GOPROXY=off", "GOSUMDB=off", "GOTOOLCHAIN=local")
		out, err := cmd.Output()
		if err != nil {
			continue
		}
		dir := strings.TrimSpace(string(out))
		for _, p := range fb.pairs {
			b, err := os.ReadFile(filepath.Join(dir, p[1]))
			if err != nil {
				continue
			}
			var lines []string
			for _, l := range strings.Split(string(b), "\n") {
				if strings.HasPrefix(l, "// +build") || strings.HasPrefix(l, "//go:build") {
					continue
				}
				lines = append(lines, l)
			}
			ov[filepath.Join(dir, p[0])] = []byte(strings.Join(lines, "\n"))
		}
	}
}

func loadProgram(repo, overlayDir string, patterns []string) (*engine, error) {
	t0 := time.Now()
	ov, err := buildOverlay(repo, overlayDir)
	if err != nil {
		return nil, err
	}
	cfg := &packages.Config{
		Mode:    packages.LoadAllSyntax,
		Dir:     repo,
		Overlay: ov,
		Env:     append(os.Environ(), "GOFLAGS=-mod=mod", "GOPROXY=off", "GOSUMDB=off", "GOTOOLCHAIN=local"),
	}
	pureGoFallbacks(repo, ov)
	initial, err := packages.Load(cfg, patterns...)
	if err != nil {
		return nil, err
	}
	nerr := 0
	packages.Visit(initial, nil, func(p *packages.Package) {
		for _, e := range p.Errors {
			if strings.HasPrefix(p.PkgPath, modPath) {
				fmt.Fprintf(os.Stderr, "load error: %s: %v\n", p.PkgPath, e)
				nerr++
			} else if os.Getenv("GSE_LOADDEBUG") != "" {
				fmt.Fprintf(os.Stderr, "load error (dependency): %s: %v\n", p.PkgPath, e)
			}
		}
	})
	if nerr > 0 {
		return nil, fmt.Errorf("%d package errors", nerr)
	}
	prog, pkgs := ssautil.AllPackages(initial, ssa.InstantiateGenerics)
	prog.Build()
	e := &engine{prog: prog, pkgs: pkgs, repo: repo, overlayDir: overlayDir}
	if rt := prog.ImportedPackage("runtime"); rt != nil {
		e.runtimeErrorType = rt.Type("errorString").Object().Type()
	}
	e.interpPrefixes = []string{modPath + "/", "github.com/emirpasic/gods", "github.com/hashicorp/golang-lru"}
	e.interpExact = map[string]bool{
		modPath: true, "container/list": true, "container/heap": true, "errors": true, "internal/errorlite": true,
		"sort": true, "slices": true, "strings": true, "bytes": true, "unicode/utf8": true, "unicode": true, "strconv": true,
		"encoding/hex": true, "math/bits": true, "internal/itoa": true, "internal/stringslite": true, "cmp": true,
		"github.com/patrickmn/go-cache": true, "github.com/golang/snappy": true, "path": true, "path/filepath": false, "encoding/base64": true,
		"internal/byteorder": true, "iter": true, "github.com/golang/groupcache/lru": true, "context": false,
		"time": true, "github.com/syndtr/goleveldb/leveldb/comparer": true, "github.com/syndtr/goleveldb/leveldb/util": true,
	}
	e.models = map[string]modelFn{}
	e.skipInit = map[string]bool{"errors": true, "strconv": false, "unicode": true}
	registerModels(e)
	e.loadSecs = time.Since(t0).Seconds()
	return e, nil
}

func (e *engine) findFunc(spec string) (*ssa.Function, error) {
	i := strings.LastIndex(spec, ".")
	if i < 0 {
		return nil, fmt.Errorf("harness spec %q: want pkgpath.Func", spec)
	}
	pp, fn := spec[:i], spec[i+1:]
	for _, p := range e.prog.AllPackages() {
		if p.Pkg.Path() == pp {
			if f := p.Func(fn); f != nil {
				return f, nil
			}
			return nil, fmt.Errorf("no function %s in %s", fn, pp)
		}
	}
	return nil, fmt.Errorf("package %s not loaded", pp)
}

// ---------------------------------------------------------------- one path

func (e *engine) runPath(sol *Solver, harness *ssa.Function, prefix []decision, feed *concreteFeed) (res *pathResult) {
	m := &machine{
		eng: e, ts: NewTermStore(), sol: sol, prefix: prefix,
		globals: map[*ssa.Global]*value{}, inited: map[*ssa.Package]bool{},
		known: map[string]*Term{}, unwindMax: e.cfg.Unwind, splitMax: e.cfg.SplitMax,
		maxInstr: e.cfg.MaxInstr, permuteMaps: e.cfg.PermuteMaps, exploring: false,
		preemptMax: e.cfg.PreemptMax, concrete: feed,
	}
	res = &pathResult{covers: map[string]bool{}, asserts: map[string]*assertRec{}, funcs: map[*ssa.Function]int64{}}
	m.res = res
	m.models = newModelState()
	m.initThreads()
	sol.BeginPath()
	defer func() {
		r := recover()
		m.killAll()
		sol.EndPath()
		res.trace = m.trace
		res.alts = m.alts
		res.nInstr = m.nInstr
		res.pcSize = len(m.pc)
		switch r := r.(type) {
		case nil:
			res.outcome = "ok"
		case pathAbort:
			res.outcome = r.kind
			res.msg = r.msg
			if r.kind == "violation-stop" {
				res.outcome = "ok"
			}
		case targetPanic:
			res.outcome = "panic"
			res.msg = panicString(m, r)
		case engineError:
			res.outcome = "engine-error"
			res.msg = r.msg + "\n" + string(debug.Stack())
		default:
			res.outcome = "engine-error"
			res.msg = fmt.Sprintf("%v\n%s", r, debug.Stack())
		}
		if len(res.violations) > 0 {
			// keep
		}
	}()
	m.ensureInit(harness.Pkg)
	func() {
		defer func() {
			// an uncaught panic of the program under test is an outcome the
			// harness did not anticipate: report it as a violation "no-panic".
			if r := recover(); r != nil {
				if tp, ok := r.(targetPanic); ok {
					msg := panicString(m, tp)
					_, model := m.checkModel()
					m.recordViolation("no-panic", "uncaught panic: "+msg, m.knownClassFor("no-panic"), model, "")
					res.msg = msg
					panic(pathAbort{"panic", msg})
				}
				if pa, ok := r.(pathAbort); ok && pa.kind == "panic" {
					_, model := m.checkModel()
					m.recordViolation("no-panic", "uncaught panic: "+pa.msg, m.knownClassFor("no-panic"), model, "")
				}
				if pa, ok := r.(pathAbort); ok && pa.kind == "deadlock" {
					_, model := m.checkModel()
					m.recordViolation("no-deadlock", pa.msg, m.knownClassFor("no-deadlock"), model, "")
				}
				panic(r)
			}
		}()
		call(m, &frame{m: m, th: m.cur}, 0, harness, nil)
		if e.cfg.Samples > 0 && len(res.violations) == 0 && m.concrete == nil && e.wantSample(m.trace) {
			// a concrete representative of this path, for differential validation against the native build
			if r, model := m.checkModel(); r == Sat {
				res.sampleModel = m.modelVars(model)
				res.sampleChoices = m.choiceList()
				res.hasSample = true
			}
		}
		if m.pos < len(m.prefix) {
			panic(engineError{fmt.Sprintf("path ended with %d unconsumed prefix decisions (nondeterministic harness?)", len(m.prefix)-m.pos)})
		}
	}()
	return
}

// knownClassFor: for engine-detected violations (panic, deadlock) a known
// class applies when its predicate is concretely/necessarily true on the path.
func (m *machine) knownClassFor(label string) string {
	var classes []string
	for k := range m.known {
		classes = append(classes, k)
	}
	sort.Strings(classes)
	for _, k := range classes {
		if !strings.HasPrefix(k, label+":") {
			continue
		}
		if m.check(m.ts.Not(m.known[k])) == Unsat {
			return k
		}
	}
	return ""
}

// ---------------------------------------------------------------- exploration

type harnessReport struct {
	Harness       string            `json:"harness"`
	Paths         int               `json:"paths"`
	Outcomes      map[string]int    `json:"outcomes"`
	Decisions     int64             `json:"decisions"`
	Exhaustive    bool              `json:"exhaustive"`
	Violations    []violation       `json:"violations"`
	Covers        map[string]bool   `json:"covers"`
	Asserts       map[string][2]int `json:"asserts"` // label -> [discharged, trivial]
	Nontrivial    int               `json:"nontrivial_paths"`
	Queries       int               `json:"queries"`
	SolverSecs    float64           `json:"solver_s"`
	Unknowns      int               `json:"unknowns"`
	Fallbacks     int               `json:"portfolio_fallbacks"`
	FallbackSaved int               `json:"portfolio_decided"`
	SolverErrors  []string          `json:"solver_errors"`
	Instr         int64             `json:"instructions"`
	Funcs         map[string]int64  `json:"functions"`
	WallSecs      float64           `json:"wall_s"`
	Problems      []string          `json:"problems"`
	Samples       []pathSample      `json:"samples"`
	Observes      [][]string        `json:"observes,omitempty"`
	SampleInputs  []sampleInput     `json:"sample_inputs,omitempty"`
}

type sampleInput struct {
	Vars    []replayVar `json:"vars"`
	Choices []int       `json:"choices"`
}

type pathSample struct {
	Decisions string   `json:"decisions"`
	Outcome   string   `json:"outcome"`
	PCSize    int      `json:"pc_conjuncts"`
	Asserts   []string `json:"asserts_discharged"`
}

func traceString(tr []decision) string {
	var sb strings.Builder
	for _, d := range tr {
		switch d.Kind {
		case 'b':
			c := "f"
			if d.B {
				c = "t"
			}
			if d.Forced {
				c = strings.ToUpper(c)
			}
			sb.WriteString(c)
		case 'c':
			fmt.Fprintf(&sb, "[%d/%d]", d.C, d.N)
		case 'v':
			if d.Val != nil {
				fmt.Fprintf(&sb, "<%s>", d.Val)
			} else {
				sb.WriteString("<?>")
			}
		}
	}
	return sb.String()
}

func (e *engine) explore(spec string) *harnessReport {
	atomic.StoreInt64(&e.okSeen, 0)
	atomic.StoreInt64(&e.sampled, 0)
	rep := &harnessReport{Harness: spec, Outcomes: map[string]int{}, Covers: map[string]bool{}, Asserts: map[string][2]int{}, Funcs: map[string]int64{}}
	t0 := time.Now()
	h, err := e.findFunc(spec)
	if err != nil {
		rep.Problems = append(rep.Problems, err.Error())
		return rep
	}
	var mu sync.Mutex
	cond := sync.NewCond(&mu)
	work := [][]decision{nil}
	active := 0
	stopped := false
	var firstNew time.Time
	deadline := time.Now().Add(e.cfg.Deadline)
	seenVio := map[string]bool{}

	worker := func(id int) {
		lp := ""
		if d := os.Getenv("GSE_SMTLOG"); d != "" {
			lp = fmt.Sprintf("%s/worker-%d.smt2", d, id)
		}
		sol, err := NewSolver(e.cfg.Solver, e.cfg.TimeoutMs, lp)
		if err != nil {
			mu.Lock()
			rep.Problems = append(rep.Problems, "solver: "+err.Error())
			mu.Unlock()
			return
		}
		defer func() {
			mu.Lock()
			rep.Queries += sol.Queries
			rep.SolverSecs += sol.Time.Seconds()
			rep.SolverErrors = append(rep.SolverErrors, sol.Errors...)
			rep.Fallbacks += sol.Fallbacks
			rep.FallbackSaved += sol.FallbackSaved
			mu.Unlock()
			sol.Close()
		}()
		for {
			mu.Lock()
			for len(work) == 0 && active > 0 && !stopped {
				cond.Wait()
			}
			if stopped || len(work) == 0 {
				mu.Unlock()
				cond.Broadcast()
				return
			}
			// depth-first: take the most recent
			prefix := work[len(work)-1]
			work = work[:len(work)-1]
			active++
			mu.Unlock()

			res := e.runPath(sol, h, prefix, nil)

			mu.Lock()
			active--
			rep.Paths++
			rep.Outcomes[res.outcome]++
			rep.Decisions += int64(len(res.trace))
			rep.Instr += res.nInstr
			rep.Unknowns += res.unknowns
			if res.nontrivial {
				rep.Nontrivial++
			}
			for k, v := range res.covers {
				rep.Covers[k] = rep.Covers[k] || v
			}
			var dis []string
			for k, a := range res.asserts {
				x := rep.Asserts[k]
				x[0] += a.Discharge
				x[1] += a.Trivial
				rep.Asserts[k] = x
				if a.Discharge > 0 {
					dis = append(dis, k)
				}
			}
			for f, n := range res.funcs {
				rep.Funcs[f.String()] += n
			}
			for _, v := range res.violations {
				key := v.Label + "|" + v.Class
				if seenVio[key] && len(rep.Violations) >= 8 {
					continue
				}
				seenVio[key] = true
				v.Harness = spec
				rep.Violations = append(rep.Violations, v)
			}
			switch res.outcome {
			case "unsupported", "unwind", "engine-error":
				if len(rep.Problems) < 20 {
					rep.Problems = append(rep.Problems, res.outcome+": "+firstLines(res.msg, 12)+" @"+traceString(res.trace))
				}
			}
			if len(rep.Samples) < 6 && (len(dis) > 0 || len(rep.Samples) < 2) {
				sort.Strings(dis)
				rep.Samples = append(rep.Samples, pathSample{Decisions: traceString(res.trace), Outcome: res.outcome, PCSize: res.pcSize, Asserts: dis})
			}
			if res.hasSample && res.outcome == "ok" && len(rep.SampleInputs) < e.cfg.Samples {
				// the first two completed paths, then a seed-dependent selection
				rep.SampleInputs = append(rep.SampleInputs, sampleInput{Vars: res.sampleModel, Choices: res.sampleChoices})
			}
			work = append(work, res.alts...)
			if e.cfg.MaxPaths > 0 && rep.Paths >= e.cfg.MaxPaths && (len(work) > 0 || active > 0) {
				stopped = true
				rep.Problems = append(rep.Problems, fmt.Sprintf("path limit %d reached with %d pending", e.cfg.MaxPaths, len(work)))
			}
			if time.Now().After(deadline) && (len(work) > 0 || active > 0) {
				stopped = true
				rep.Problems = append(rep.Problems, fmt.Sprintf("deadline reached with %d pending paths", len(work)))
			}
			if e.cfg.StopOnVio && len(rep.Violations) > 0 && hasNewViolation(rep.Violations) {
				stopped = true
			}
			// a tree that breaks the property can also blow the exploration up (code that is normally
			// cut off by a check now runs on arbitrary data): once a violation outside every known class
			// is on record, exploration goes on for a grace period only
			if len(rep.Violations) > 0 && hasNewViolation(rep.Violations) {
				if firstNew.IsZero() {
					firstNew = time.Now()
				} else if time.Since(firstNew) > e.cfg.Grace && (len(work) > 0 || active > 0) {
					stopped = true
					rep.Problems = append(rep.Problems, fmt.Sprintf("stopped %s after the first new violation with %d pending paths", e.cfg.Grace, len(work)))
				}
			}
			mu.Unlock()
			cond.Broadcast()
		}
	}
	var wg sync.WaitGroup
	for i := 0; i < e.cfg.Workers; i++ {
		wg.Add(1)
		go func(i int) { defer wg.Done(); worker(i) }(i)
	}
	wg.Wait()
	rep.Exhaustive = !stopped && len(work) == 0
	if len(rep.SolverErrors) > 0 {
		rep.Problems = append(rep.Problems, fmt.Sprintf("%d solver error lines, e.g. %s", len(rep.SolverErrors), rep.SolverErrors[0]))
		if len(rep.SolverErrors) > 5 {
			rep.SolverErrors = rep.SolverErrors[:5]
		}
	}
	if rep.Unknowns > 0 {
		rep.Problems = append(rep.Problems, fmt.Sprintf("%d solver unknowns", rep.Unknowns))
	}
	for k, v := range rep.Covers {
		if !v {
			rep.Problems = append(rep.Problems, "cover not reached: "+k)
		}
	}
	rep.WallSecs = time.Since(t0).Seconds()
	return rep
}

func hasNewViolation(vs []violation) bool {
	for _, v := range vs {
		if v.Class == "" {
			return true
		}
	}
	return false
}

func firstLines(s string, n int) string {
	ls := strings.Split(s, "\n")
	if len(ls) > n {
		ls = ls[:n]
	}
	return strings.Join(ls, "\n")
}

// ---------------------------------------------------------------- main

type multiFlag []string

func (m *multiFlag) String() string     { return strings.Join(*m, ",") }
func (m *multiFlag) Set(s string) error { *m = append(*m, s); return nil }

func main() {
	var harnesses multiFlag
	repo := flag.String("repo", "/repo", "repository root")
	overlay := flag.String("overlay", "/verif/overlay", "overlay tree mirrored onto the repository")
	out := flag.String("out", "", "write JSON report here")
	flag.Var(&harnesses, "harness", "pkgpath.Func (repeatable)")
	workers := flag.Int("workers", 16, "parallel workers")
	timeout := flag.Int("timeout-ms", 20000, "solver timeout per query")
	unwind := flag.Int("unwind", 64, "loop unwinding limit (per frame)")
	split := flag.Int("split", 64, "value split limit")
	maxPaths := flag.Int("maxpaths", 0, "stop after this many paths (0 = none); stopping makes the run non-exhaustive")
	maxInstr := flag.Int64("maxinstr", 50_000_000, "instruction budget per path")
	permute := flag.Int("permute-maps", 0, "explore iteration orders of maps with up to N entries")
	explore := flag.Bool("explore-sched", false, "explore goroutine interleavings")
	raceFlag := flag.Bool("race", false, "happens-before monitor for Go maps (concurrent map read/write)")
	preempt := flag.Int("preempt", 1000, "preemption bound in exploring mode")
	solver := flag.String("solver", "z3", "z3 | z3-new | cvc5")
	trace := flag.Bool("trace", false, "trace instructions")
	grace := flag.Duration("violation-grace", 60*time.Second, "keep exploring this long after the first violation outside known classes")
	stopVio := flag.Bool("stop-on-violation", false, "stop at the first new violation")
	deadline := flag.Duration("deadline", 30*time.Minute, "wall-clock limit per harness")
	samples := flag.Int("samples", 0, "emit up to N concrete representatives of completed paths (for native differential validation)")
	seed := flag.Int64("seed", 0, "seed for sample selection")
	concrete := flag.String("concrete", "", "run once concretely with values from this replay JSON and print observations")
	flag.Parse()

	pkgset := map[string]bool{}
	for _, h := range harnesses {
		i := strings.LastIndex(h, ".")
		if i > 0 {
			pkgset[h[:i]] = true
		}
	}
	var patterns []string
	for p := range pkgset {
		patterns = append(patterns, p)
	}
	sort.Strings(patterns)
	e, err := loadProgram(*repo, *overlay, patterns)
	if err != nil {
		fmt.Fprintln(os.Stderr, "gse: load failed:", err)
		os.Exit(3)
	}
	e.trace = *trace
	e.cfg = config{Workers: *workers, TimeoutMs: *timeout, Unwind: *unwind, SplitMax: *split, MaxPaths: *maxPaths, MaxInstr: *maxInstr,
		PermuteMaps: *permute, Explore: *explore, Race: *raceFlag, PreemptMax: *preempt, Solver: *solver, StopOnVio: *stopVio, Grace: *grace, Deadline: *deadline, Samples: *samples, Seed: *seed}

	type outT struct {
		LoadSecs float64          `json:"load_s"`
		Reports  []*harnessReport `json:"reports"`
	}
	o := outT{LoadSecs: e.loadSecs}
	if *concrete != "" {
		rep := e.runConcrete(harnesses[0], *concrete)
		o.Reports = append(o.Reports, rep)
	} else {
		for _, h := range harnesses {
			rep := e.explore(h)
			o.Reports = append(o.Reports, rep)
			fmt.Fprintf(os.Stderr, "gse: %s paths=%d outcomes=%v exhaustive=%v violations=%d queries=%d solver=%.1fs wall=%.1fs problems=%d\n",
				h, rep.Paths, rep.Outcomes, rep.Exhaustive, len(rep.Violations), rep.Queries, rep.SolverSecs, rep.WallSecs, len(rep.Problems))
			for _, p := range rep.Problems {
				fmt.Fprintln(os.Stderr, "  problem:", p)
			}
		}
	}
	b, _ := json.MarshalIndent(o, "", " ")
	if *out != "" {
		os.WriteFile(*out, b, 0o644)
	} else {
		os.Stdout.Write(b)
		fmt.Println()
	}
}

func (e *engine) runConcrete(spec, replayPath string) *harnessReport {
	rep := &harnessReport{Harness: spec, Outcomes: map[string]int{}, Covers: map[string]bool{}, Asserts: map[string][2]int{}, Funcs: map[string]int64{}}
	h, err := e.findFunc(spec)
	if err != nil {
		rep.Problems = append(rep.Problems, err.Error())
		return rep
	}
	b, err := os.ReadFile(replayPath)
	if err != nil {
		rep.Problems = append(rep.Problems, err.Error())
		return rep
	}
	var rf struct {
		Vars    []replayVar `json:"vars"`
		Choices []int       `json:"choices"`
		AllC    []int       `json:"all_structural_choices"`
	}
	if err := json.Unmarshal(b, &rf); err != nil {
		rep.Problems = append(rep.Problems, err.Error())
		return rep
	}
	sol, err := NewSolver(e.cfg.Solver, e.cfg.TimeoutMs, "")
	if err != nil {
		rep.Problems = append(rep.Problems, err.Error())
		return rep
	}
	defer sol.Close()
	res := e.runPath(sol, h, nil, &concreteFeed{vars: rf.Vars, choices: rf.Choices, allC: rf.AllC})
	rep.Paths = 1
	rep.Outcomes[res.outcome]++
	rep.Observes = append(rep.Observes, res.observes)
	for _, v := range res.violations {
		v.Harness = spec
		rep.Violations = append(rep.Violations, v)
	}
	if res.outcome != "ok" {
		rep.Problems = append(rep.Problems, res.outcome+": "+firstLines(res.msg, 12))
	}
	return rep
}

// wantSample: the first two completed paths of a harness and a seed-dependent
// selection of later ones are turned into concrete representatives.
func (e *engine) wantSample(tr []decision) bool {
	n := atomic.AddInt64(&e.okSeen, 1)
	if atomic.LoadInt64(&e.sampled) >= int64(e.cfg.Samples) {
		return false
	}
	h := int64(0)
	for _, d := range tr {
		h = h*31 + int64(d.C) + int64(d.Kind)
		if d.B {
			h++
		}
	}
	if h < 0 {
		h = -h
	}
	if n <= 2 || (h+e.cfg.Seed)%23 == 0 {
		atomic.AddInt64(&e.sampled, 1)
		return true
	}
	return false
}
