package main

// Happens-before monitor for Go maps (flag -race).
//
// The Go runtime turns a map read or write that overlaps a write by another
// goroutine into "fatal error: concurrent map read and map write" /
// "concurrent map writes". Whether two accesses can overlap does not depend on
// the one interleaving the executor happens to run: it is decided by the
// happens-before order of the execution (vector clocks, FastTrack style):
//   - go statement: parent -> child
//   - Mutex / RWMutex / WaitGroup: release -> later acquire of the same object
//     (RLock acquires from writers only; Lock acquires from writers and readers)
//   - every other synchronisation the executor models (channel operations,
//     select, atomics, sync.Map, Once, Cond, vrt.Quiesce) is treated as an
//     acquire+release on ONE global object, which orders more than the Go memory
//     model does: the monitor can miss races that only such operations separate,
//     it cannot report an access pair that real synchronisation orders.
// Only maps are monitored (plain variables are not: a racy word is not a crash).

import "fmt"

type vclock []int

func (a vclock) get(i int) int {
	if i < len(a) {
		return a[i]
	}
	return 0
}

func joinVC(a, b vclock) vclock {
	if len(b) > len(a) {
		a = append(a, make(vclock, len(b)-len(a))...)
	}
	for i, x := range b {
		if x > a[i] {
			a[i] = x
		}
	}
	return a
}

type mapAccess struct {
	wT, wC int         // last write: thread, its clock (wC 0: none)
	wPos   string      // where
	reads  map[int]int // thread -> clock of its last read since the last write
	rPos   map[int]string
	flag   bool
}

type raceState struct {
	locks  map[interface{}]vclock
	global vclock
	maps   map[*Map]*mapAccess
}

func (m *machine) raceOn() bool { return m.eng.cfg.Race }

func (m *machine) rs() *raceState {
	if m.race == nil {
		m.race = &raceState{locks: map[interface{}]vclock{}, maps: map[*Map]*mapAccess{}}
	}
	return m.race
}

func (t *gthread) tick() {
	for len(t.clk) <= t.id {
		t.clk = append(t.clk, 0)
	}
	t.clk[t.id]++
}

func (m *machine) thOf(fr *frame) *gthread {
	if fr != nil && fr.th != nil {
		return fr.th
	}
	return m.cur
}

func (m *machine) hbSpawn(parent, child *gthread) {
	if !m.raceOn() || parent == nil {
		return
	}
	if len(parent.clk) == 0 {
		parent.tick()
	}
	child.clk = append(vclock{}, parent.clk...)
	child.tick()
	parent.tick()
}

func (m *machine) lockAcquire(fr *frame, l interface{}) {
	if !m.raceOn() {
		return
	}
	t := m.thOf(fr)
	t.clk = joinVC(t.clk, m.rs().locks[l])
}

func (m *machine) lockRelease(fr *frame, l interface{}) {
	if !m.raceOn() {
		return
	}
	t := m.thOf(fr)
	if len(t.clk) == 0 {
		t.tick()
	}
	r := m.rs()
	r.locks[l] = joinVC(append(vclock{}, r.locks[l]...), t.clk)
	t.tick()
}

// syncGlobal: acquire+release on the global object (see the header).
func (m *machine) syncGlobal(fr *frame) {
	if !m.raceOn() {
		return
	}
	t := m.thOf(fr)
	if len(t.clk) == 0 {
		t.tick()
	}
	r := m.rs()
	t.clk = joinVC(t.clk, r.global)
	r.global = joinVC(append(vclock{}, r.global...), t.clk)
	t.tick()
}

// hbJoinAll: the caller has waited for every other goroutine (vrt.Quiesce).
func (m *machine) hbJoinAll(fr *frame) {
	if !m.raceOn() {
		return
	}
	t := m.thOf(fr)
	for _, o := range m.threads {
		if o != t {
			t.clk = joinVC(t.clk, o.clk)
		}
	}
}

func (m *machine) sharedAccess(fr *frame, obj interface{}, write bool) {
	if !m.raceOn() {
		return
	}
	mp, ok := obj.(*Map)
	if !ok || mp == nil || len(m.threads) < 2 {
		return
	}
	t := m.thOf(fr)
	if len(t.clk) == 0 {
		t.tick()
	}
	r := m.rs()
	a := r.maps[mp]
	if a == nil {
		a = &mapAccess{reads: map[int]int{}, rPos: map[int]string{}}
		r.maps[mp] = a
	}
	pos := ""
	if fr != nil && fr.cur != nil {
		pos = shortPos(m.eng.prog, fr.cur)
	}
	report := func(kind, other string) {
		if a.flag {
			return
		}
		a.flag = true
		res, model := m.checkModel()
		if res != Sat {
			return
		}
		m.recordViolation("no-map-access-concurrent-with-a-map-write", fmt.Sprintf("%s at %s is not ordered with %s (Go runtime: fatal error: concurrent map %s)", kind, pos, other, map[bool]string{true: "writes", false: "read and map write"}[kind == "write" && other[0] == 'w']), "", model, pos)
	}
	if a.wC > 0 && a.wT != t.id && a.wC > t.clk.get(a.wT) {
		k := "read"
		if write {
			k = "write"
		}
		report(k, "write at "+a.wPos)
	}
	if write {
		for u, c := range a.reads {
			if u != t.id && c > t.clk.get(u) {
				report("write", "read at "+a.rPos[u])
			}
		}
		a.wT, a.wC, a.wPos = t.id, t.clk[t.id], pos
		a.reads, a.rPos = map[int]int{}, map[int]string{}
	} else {
		a.reads[t.id] = t.clk[t.id]
		a.rPos[t.id] = pos
	}
}
