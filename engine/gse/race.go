package main

// Lockset / happens-before monitor hooks (exploring mode).

func (m *machine) sharedAccess(fr *frame, obj interface{}, write bool) {}
func (m *machine) lockAcquire(fr *frame, l interface{})                {}
func (m *machine) lockRelease(fr *frame, l interface{})                {}
func (m *machine) hbJoinAll(fr *frame)                                 {}
