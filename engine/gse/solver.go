package main

import (
	"bufio"
	"fmt"
	"io"
	"math/big"
	"os"
	"os/exec"
	"strings"
	"time"
)

type SatResult int

const (
	Unsat SatResult = iota
	Sat
	Unknown
)

func (r SatResult) String() string { return [...]string{"unsat", "sat", "unknown"}[r] }

// Solver drives one long-lived SMT solver process (z3 -in) with push/pop.
type Solver struct {
	cmd           *exec.Cmd
	in            io.WriteCloser
	out           *bufio.Reader
	epoch         int
	timeout       int // ms per query
	Queries       int
	Time          time.Duration
	Unknowns      int
	Errors        []string
	log           *os.File
	kind          string
	pathsRun      int
	ufset         map[string]bool
	pathLog       strings.Builder // path-level commands of the current scope (for portfolio fallback)
	Fallbacks     int
	FallbackSaved int
	fallbackMs    int
	ufEpoch       int
}

func NewSolver(kind string, timeoutMs int, logPath string) (*Solver, error) {
	s := &Solver{timeout: timeoutMs, kind: kind}
	if logPath != "" {
		f, err := os.Create(logPath)
		if err == nil {
			s.log = f
		}
	}
	if err := s.start(); err != nil {
		return nil, err
	}
	return s, nil
}

func (s *Solver) start() error {
	var cmd *exec.Cmd
	switch s.kind {
	case "z3", "":
		cmd = exec.Command("z3", "-in", "-smt2")
	case "z3-new":
		cmd = exec.Command("z3-new", "-in", "-smt2")
	case "cvc5":
		cmd = exec.Command("cvc5", "--incremental", "--lang=smt2", fmt.Sprintf("--tlimit-per=%d", s.timeout))
	default:
		return fmt.Errorf("unknown solver %q", s.kind)
	}
	in, err := cmd.StdinPipe()
	if err != nil {
		return err
	}
	out, err := cmd.StdoutPipe()
	if err != nil {
		return err
	}
	cmd.Stderr = cmd.Stdout
	if err := cmd.Start(); err != nil {
		return err
	}
	s.cmd, s.in, s.out = cmd, in, bufio.NewReaderSize(out, 1<<16)
	if s.kind == "cvc5" {
		s.send("(set-logic ALL)\n(set-option :produce-models true)\n")
	} else {
		s.send(fmt.Sprintf("(set-option :timeout %d)\n(set-option :produce-models true)\n", s.timeout))
	}
	return nil
}

func (s *Solver) Close() {
	if s.cmd != nil {
		s.in.Close()
		s.cmd.Process.Kill()
		s.cmd.Wait()
		s.cmd = nil
	}
	if s.log != nil {
		s.log.Close()
	}
}

func (s *Solver) restart() {
	s.in.Close()
	s.cmd.Process.Kill()
	s.cmd.Wait()
	if err := s.start(); err != nil {
		panic(engineError{"solver restart: " + err.Error()})
	}
}

// sendPath sends path-level commands and records them for the fallback portfolio.
func (s *Solver) sendPath(txt string) {
	s.pathLog.WriteString(txt)
	s.send(txt)
}

func (s *Solver) send(txt string) {
	if s.log != nil {
		s.log.WriteString(txt)
	}
	if _, err := io.WriteString(s.in, txt); err != nil {
		panic(engineError{"solver write: " + err.Error()})
	}
}

// roundTrip sends txt followed by an echo marker and returns all output
// lines before the marker.
func (s *Solver) roundTrip(txt string) []string {
	s.send(txt + "\n(echo \"<<done>>\")\n")
	var lines []string
	for {
		line, err := s.out.ReadString('\n')
		if err != nil {
			panic(engineError{"solver read: " + err.Error() + " after " + strings.Join(lines, "|")})
		}
		line = strings.TrimSpace(line)
		if line == "<<done>>" || line == "\"<<done>>\"" {
			break
		}
		if line == "" {
			continue
		}
		if strings.Contains(line, "(error \"") {
			s.Errors = append(s.Errors, line)
		}
		lines = append(lines, line)
	}
	return lines
}

// BeginPath opens a fresh scope for one execution path.
func (s *Solver) BeginPath() {
	s.pathsRun++
	if s.pathsRun%400 == 0 {
		s.restart()
	}
	s.epoch++
	s.pathLog.Reset()
	s.send("(push 1)\n")
}

func (s *Solver) EndPath() {
	s.send("(pop 1)\n")
}

// define makes sure t and all its descendants are declared/defined in the
// current path scope.
func (s *Solver) define(ts *TermStore, t *Term, sb *strings.Builder) {
	if t.emit == s.epoch || t.Op == OpConst {
		return
	}
	t.emit = s.epoch
	for _, a := range t.Args {
		s.define(ts, a, sb)
	}
	switch t.Op {
	case OpVar:
		fmt.Fprintf(sb, "(declare-const %s %s)\n", t.Name, t.sortName())
		if t.Sort == SInt {
			if t.Lo != nil {
				fmt.Fprintf(sb, "(assert (<= %s %s))\n", smtInt(t.Lo), t.Name)
			}
			if t.Hi != nil {
				fmt.Fprintf(sb, "(assert (<= %s %s))\n", t.Name, smtInt(t.Hi))
			}
		}
	case OpApp:
		key := fmt.Sprintf("%d:%s", s.epoch, t.Name)
		if !s.ufSeen(key) {
			sb.WriteString(ts.ufs[t.Name] + "\n")
		}
		fmt.Fprintf(sb, "(define-fun t%d () %s %s)\n", t.id, t.sortName(), t.body())
	default:
		fmt.Fprintf(sb, "(define-fun t%d () %s %s)\n", t.id, t.sortName(), t.body())
	}
}

var _ = big.NewInt

func (s *Solver) ufSeen(key string) bool {
	if s.ufset == nil || s.ufEpoch != s.epoch {
		s.ufset = map[string]bool{}
		s.ufEpoch = s.epoch
	}
	if s.ufset[key] {
		return true
	}
	s.ufset[key] = true
	return false
}

// Assert adds t permanently to the current path scope.
func (s *Solver) Assert(ts *TermStore, t *Term) {
	var sb strings.Builder
	s.define(ts, t, &sb)
	fmt.Fprintf(&sb, "(assert %s)\n", t.ref())
	s.sendPath(sb.String())
}

// Check decides satisfiability of (path scope ∧ extra...). If wantModel and
// the answer is sat, the values of vars are returned.
func (s *Solver) Check(ts *TermStore, extra []*Term, wantModel bool, vars []*Term) (SatResult, map[string]*big.Int) {
	var sb strings.Builder
	for _, t := range extra {
		s.define(ts, t, &sb)
	}
	if wantModel {
		for _, v := range vars {
			s.define(ts, v, &sb)
		}
	}
	s.pathLog.WriteString(sb.String())
	var qb strings.Builder
	for _, t := range extra {
		fmt.Fprintf(&qb, "(assert %s)\n", t.ref())
	}
	sb.WriteString("(push 1)\n")
	sb.WriteString(qb.String())
	sb.WriteString("(check-sat)")
	t0 := time.Now()
	nerr := len(s.Errors)
	lines := s.roundTrip(sb.String())
	s.Time += time.Since(t0)
	s.Queries++
	res := Unknown
	if len(s.Errors) == nerr {
		for _, l := range lines {
			switch l {
			case "sat":
				res = Sat
			case "unsat":
				res = Unsat
			}
		}
	}
	var model map[string]*big.Int
	if res == Unknown && len(s.Errors) == nerr && s.kind != "cvc5" && os.Getenv("GSE_NOFALLBACK") == "" {
		// portfolio: retry the same query one-shot on the other solvers
		s.send("(pop 1)\n")
		s.Fallbacks++
		r2, m2 := s.fallback(qb.String(), wantModel, vars)
		s.Time += time.Since(t0)
		if r2 == Unknown {
			s.Unknowns++
		} else {
			s.FallbackSaved++
		}
		return r2, m2
	}
	if res == Sat && wantModel && len(vars) > 0 {
		var q strings.Builder
		q.WriteString("(get-value (")
		for _, v := range vars {
			q.WriteString(v.ref() + " ")
		}
		q.WriteString("))")
		out := strings.Join(s.roundTrip(q.String()), " ")
		model = parseModel(out)
	}
	s.send("(pop 1)\n")
	if res == Unknown {
		s.Unknowns++
	}
	return res, model
}

// parseModel parses "((a 1) (b (- 2)) (c true))".
func parseModel(s string) map[string]*big.Int {
	m := map[string]*big.Int{}
	toks := tokenize(s)
	i := 0
	// expect ( ( name value ) ... )
	if len(toks) == 0 || toks[0] != "(" {
		return m
	}
	i = 1
	for i < len(toks) && toks[i] == "(" {
		i++
		name := toks[i]
		i++
		var v *big.Int
		v, i = parseVal(toks, i)
		if i < len(toks) && toks[i] == ")" {
			i++
		}
		m[name] = v
	}
	return m
}

func parseVal(toks []string, i int) (*big.Int, int) {
	if toks[i] == "(" {
		// (- N) or (/ a b) etc.
		op := toks[i+1]
		if op == "-" {
			v, j := parseVal(toks, i+2)
			if toks[j] == ")" {
				j++
			}
			return new(big.Int).Neg(v), j
		}
		// skip unknown s-expr
		depth := 0
		j := i
		for ; j < len(toks); j++ {
			if toks[j] == "(" {
				depth++
			} else if toks[j] == ")" {
				depth--
				if depth == 0 {
					j++
					break
				}
			}
		}
		return big.NewInt(0), j
	}
	t := toks[i]
	switch t {
	case "true":
		return big.NewInt(1), i + 1
	case "false":
		return big.NewInt(0), i + 1
	}
	v, ok := new(big.Int).SetString(t, 10)
	if !ok {
		v = big.NewInt(0)
	}
	return v, i + 1
}

func tokenize(s string) []string {
	var toks []string
	cur := strings.Builder{}
	flush := func() {
		if cur.Len() > 0 {
			toks = append(toks, cur.String())
			cur.Reset()
		}
	}
	for _, r := range s {
		switch r {
		case '(', ')':
			flush()
			toks = append(toks, string(r))
		case ' ', '\t', '\n':
			flush()
		default:
			cur.WriteRune(r)
		}
	}
	flush()
	return toks
}

// fallback re-runs a query that the incremental solver could not decide on
// fresh one-shot processes of the other installed solvers.
func (s *Solver) fallback(query string, wantModel bool, vars []*Term) (SatResult, map[string]*big.Int) {
	var txt strings.Builder
	txt.WriteString("(set-option :produce-models true)\n")
	txt.WriteString(s.pathLog.String())
	txt.WriteString(query)
	txt.WriteString("(check-sat)\n")
	if wantModel && len(vars) > 0 {
		txt.WriteString("(get-value (")
		for _, v := range vars {
			txt.WriteString(v.ref() + " ")
		}
		txt.WriteString("))\n")
	}
	ms := s.fallbackMs
	if ms == 0 {
		ms = 60000
	}
	type cand struct {
		name string
		args []string
		pre  string
	}
	cands := []cand{
		{"z3-new", []string{"-in", "-smt2", fmt.Sprintf("-T:%d", ms/1000)}, ""},
		{"cvc5", []string{"--lang=smt2", "--produce-models", fmt.Sprintf("--tlimit=%d", ms)}, "(set-logic ALL)\n"},
		{"z3", []string{"-in", "-smt2", fmt.Sprintf("-T:%d", ms/1000)}, ""},
	}
	if s.kind == "z3-new" {
		cands[0], cands[2] = cands[2], cands[0]
	}
	for _, c := range cands[:2] {
		cmd := exec.Command(c.name, c.args...)
		cmd.Stdin = strings.NewReader(c.pre + txt.String())
		out, _ := cmd.CombinedOutput()
		o := string(out)
		if strings.Contains(o, "(error \"") {
			continue
		}
		lines := strings.Split(o, "\n")
		for i, l := range lines {
			l = strings.TrimSpace(l)
			if l == "unsat" {
				return Unsat, nil
			}
			if l == "sat" {
				var model map[string]*big.Int
				if wantModel {
					model = parseModel(strings.Join(lines[i+1:], " "))
				}
				return Sat, model
			}
		}
	}
	return Unknown, nil
}
