package main

import (
	"fmt"
	"go/types"
	"strconv"
	"strings"
	"unsafe"
)

// Map is the interpreter's map: insertion ordered, with a hash index for
// fully concrete keys and equality splits for symbolic ones.
type Map struct {
	typ     *types.Map
	entries []*mapEntry
	idx     map[string]*mapEntry
	nsym    int // number of entries whose key is not indexable
}

type mapEntry struct {
	key  value
	val  value
	hk   string
	conc bool
}

func newMap(t *types.Map) *Map {
	return &Map{typ: t, idx: map[string]*mapEntry{}}
}

// hashKey returns a canonical string for a fully concrete key.
func hashKey(v value) (string, bool) {
	var sb strings.Builder
	if !writeKey(&sb, v) {
		return "", false
	}
	return sb.String(), true
}

func writeKey(sb *strings.Builder, v value) bool {
	switch v := v.(type) {
	case *Term, *SymStr:
		return false
	case string:
		sb.WriteString("s" + strconv.Itoa(len(v)) + ":" + v)
	case bool:
		if v {
			sb.WriteString("T")
		} else {
			sb.WriteString("F")
		}
	case *value:
		fmt.Fprintf(sb, "p%x", uintptr(unsafe.Pointer(v)))
	case *Chan:
		fmt.Fprintf(sb, "c%x", uintptr(unsafe.Pointer(v)))
	case structure:
		sb.WriteString("{")
		for _, f := range v {
			if !writeKey(sb, f) {
				return false
			}
			sb.WriteString(",")
		}
		sb.WriteString("}")
	case array:
		sb.WriteString("[")
		for _, f := range v {
			if !writeKey(sb, f) {
				return false
			}
			sb.WriteString(",")
		}
		sb.WriteString("]")
	case iface:
		if v.t == nil {
			sb.WriteString("nil")
			return true
		}
		sb.WriteString("i(" + v.t.String() + ")")
		return writeKey(sb, v.v)
	case float32, float64, complex64, complex128:
		fmt.Fprintf(sb, "f%v", v)
	case unsafe.Pointer:
		fmt.Fprintf(sb, "u%x", uintptr(v))
	default:
		if isInteger(v) {
			if isSignedVal(v) {
				sb.WriteString("n" + strconv.FormatInt(asInt64(v), 10))
			} else {
				sb.WriteString("n" + strconv.FormatUint(asUint64(v), 10))
			}
			return true
		}
		panic(engineError{fmt.Sprintf("unhashable map key %T", v)})
	}
	return true
}

// find locates the entry for key k, splitting on symbolic equalities.
func (mp *Map) find(m *machine, k value, _ bool) *mapEntry {
	if mp == nil {
		return nil
	}
	hk, conc := hashKey(k)
	if conc {
		if e, ok := mp.idx[hk]; ok {
			return e
		}
		if mp.nsym == 0 {
			return nil
		}
	}
	kt := mp.typ.Key()
	for _, e := range mp.entries {
		if conc && e.conc {
			continue // distinct concrete keys
		}
		eq := equals(m, kt, e.key, k)
		if m.truth(eq) {
			return e
		}
	}
	return nil
}

func (mp *Map) insert(m *machine, k, v value) {
	if e := mp.find(m, k, true); e != nil {
		e.val = v
		return
	}
	hk, conc := hashKey(k)
	e := &mapEntry{key: copyVal(k), val: v, hk: hk, conc: conc}
	mp.entries = append(mp.entries, e)
	if conc {
		mp.idx[hk] = e
	} else {
		mp.nsym++
	}
}

func (mp *Map) delete(m *machine, k value) {
	e := mp.find(m, k, false)
	if e == nil {
		return
	}
	for i, x := range mp.entries {
		if x == e {
			mp.entries = append(mp.entries[:i:i], mp.entries[i+1:]...)
			break
		}
	}
	if e.conc {
		delete(mp.idx, e.hk)
	} else {
		mp.nsym--
	}
}

// iterOrder returns the entries in iteration order: insertion order, or a
// symbolic permutation when the engine explores map orders.
func (mp *Map) iterOrder(m *machine) []*mapEntry {
	out := append([]*mapEntry{}, mp.entries...)
	if m.permuteMaps > 0 && !m.permuteOff && len(out) > 1 && len(out) <= m.permuteMaps {
		// Fisher-Yates driven by structural choices: all n! orders
		for i := 0; i < len(out)-1; i++ {
			j := i + m.choose(len(out)-i, "maporder")
			out[i], out[j] = out[j], out[i]
		}
	}
	return out
}
