package main

// Symbolic float64 restricted to a dyadic grid: value = num / den with den a
// power of two and |num| small enough that every sum/difference formed is
// exactly representable in binary64, so real and IEEE arithmetic coincide.
// Supported: + - unary- and comparisons; anything else is unsupported.

import (
	"go/token"
	"math"
	"math/big"
)

type SymFloat struct {
	num *Term
	den int64
}

func (m *machine) floatAsSym(v value, den int64) (*Term, bool) {
	switch x := v.(type) {
	case *SymFloat:
		if x.den == den {
			return x.num, true
		}
		if den%x.den == 0 {
			return m.ts.Mul(x.num, m.ts.Int(den/x.den)), true
		}
		return nil, false
	case float64:
		s := x * float64(den)
		if s != math.Trunc(s) || math.Abs(s) > 1<<50 {
			return nil, false
		}
		return m.ts.Int(int64(s)), true
	}
	return nil, false
}

func (m *machine) symFloatBinop(op token.Token, x, y value) value {
	den := int64(1)
	for _, v := range []value{x, y} {
		if sf, ok := v.(*SymFloat); ok && sf.den > den {
			den = sf.den
		}
	}
	a, ok1 := m.floatAsSym(x, den)
	b, ok2 := m.floatAsSym(y, den)
	if !ok1 || !ok2 {
		m.unsupported("symbolic float operand off the dyadic grid")
	}
	ts := m.ts
	chk := func(t *Term) value {
		// exactness guard: |num| < 2^52
		lim := new(big.Int).Lsh(big.NewInt(1), 52)
		if t.Lo == nil || t.Hi == nil || new(big.Int).Abs(t.Lo).Cmp(lim) >= 0 || new(big.Int).Abs(t.Hi).Cmp(lim) >= 0 {
			m.unsupported("symbolic float sum may be inexact")
		}
		return &SymFloat{num: t, den: den}
	}
	switch op {
	case token.ADD:
		return chk(ts.Add(a, b))
	case token.SUB:
		return chk(ts.Sub(a, b))
	case token.LSS:
		return m.termVal(ts.Lt(a, b))
	case token.LEQ:
		return m.termVal(ts.Le(a, b))
	case token.GTR:
		return m.termVal(ts.Lt(b, a))
	case token.GEQ:
		return m.termVal(ts.Le(b, a))
	case token.EQL:
		return m.termVal(ts.Eq(a, b))
	case token.NEQ:
		return m.termVal(ts.Not(ts.Eq(a, b)))
	}
	m.unsupported("symbolic float operation " + op.String())
	return nil
}
