package main

// encoding/json modelled over interpreter values: an encoder and a decoder
// driven by the static Go types and their `json:"…"` tags. Structural
// characters are always concrete; symbolic bytes may occur inside numbers
// (digits of symbolic integers) and inside strings (plain ASCII only).

import (
	"encoding/base64"
	"fmt"
	"go/types"
	"math"
	"math/big"
	"reflect"
	"sort"
	"strconv"
	"strings"
	"unicode/utf8"

	"golang.org/x/tools/go/ssa"
)

type jsonField struct {
	idx       int
	name      string
	omitempty bool
	asString  bool
	typ       types.Type
	embedded  bool
}

func jsonFields(st *types.Struct) []jsonField {
	var fs []jsonField
	for i := 0; i < st.NumFields(); i++ {
		f := st.Field(i)
		tag := reflect.StructTag(st.Tag(i)).Get("json")
		if tag == "-" {
			continue
		}
		if !f.Exported() && !f.Embedded() {
			continue
		}
		name := f.Name()
		jf := jsonField{idx: i, typ: f.Type()}
		parts := strings.Split(tag, ",")
		if parts[0] != "" {
			name = parts[0]
		} else if f.Embedded() {
			jf.embedded = true
		}
		for _, p := range parts[1:] {
			switch p {
			case "omitempty":
				jf.omitempty = true
			case "string":
				jf.asString = true
			}
		}
		jf.name = name
		fs = append(fs, jf)
	}
	return fs
}

func isBigInt(t types.Type) bool {
	n, ok := t.(*types.Named)
	return ok && n.Obj().Pkg() != nil && n.Obj().Pkg().Path() == "math/big" && n.Obj().Name() == "Int"
}

// hasMethod reports a method by name on t's method set (value or pointer receiver as given).
func (m *machine) findMethod(t types.Type, name string) *ssa.Function {
	ms := m.eng.prog.MethodSets.MethodSet(t)
	for i := 0; i < ms.Len(); i++ {
		if ms.At(i).Obj().Name() == name {
			return m.eng.prog.MethodValue(ms.At(i))
		}
	}
	return nil
}

// ---------------------------------------------------------------- encode

type jsonEnc struct {
	m   *machine
	fr  *frame
	out []value
	err string
}

func (e *jsonEnc) ws(s string) { e.out = append(e.out, strBytes(s)...) }

func (e *jsonEnc) str(v value) {
	e.out = append(e.out, uint8('"'))
	b := strBytes(v)
	if s, ok := v.(string); ok {
		// concrete: use the real encoder's escaping rules
		q := jsonQuote(s)
		e.out = append(e.out[:len(e.out)-1], strBytes(q)...)
		return
	}
	for _, c := range b {
		switch c := c.(type) {
		case uint8:
			q := jsonQuote(string([]byte{c}))
			e.out = append(e.out, strBytes(q[1:len(q)-1])...)
		case *Term:
			ts := e.m.ts
			plain := ts.And(ts.Le(ts.Int(0x20), c), ts.Le(c, ts.Int(0x7e)),
				ts.Not(ts.Eq(c, ts.Int('"'))), ts.Not(ts.Eq(c, ts.Int('\\'))),
				ts.Not(ts.Eq(c, ts.Int('<'))), ts.Not(ts.Eq(c, ts.Int('>'))), ts.Not(ts.Eq(c, ts.Int('&'))))
			if !e.m.decide(plain) {
				e.m.unsupported("json: symbolic string byte that needs escaping")
			}
			e.out = append(e.out, c)
		}
	}
	e.out = append(e.out, uint8('"'))
}

func jsonQuote(s string) string {
	var sb strings.Builder
	sb.WriteByte('"')
	const hex = "0123456789abcdef"
	for i := 0; i < len(s); {
		b := s[i]
		if b < utf8.RuneSelf {
			switch {
			case b == '"' || b == '\\':
				sb.WriteByte('\\')
				sb.WriteByte(b)
			case b == '\n':
				sb.WriteString(`\n`)
			case b == '\r':
				sb.WriteString(`\r`)
			case b == '\t':
				sb.WriteString(`\t`)
			case b < 0x20 || b == '<' || b == '>' || b == '&':
				sb.WriteString(`\u00`)
				sb.WriteByte(hex[b>>4])
				sb.WriteByte(hex[b&0xF])
			default:
				sb.WriteByte(b)
			}
			i++
			continue
		}
		r, size := utf8.DecodeRuneInString(s[i:])
		if r == utf8.RuneError && size == 1 {
			sb.WriteString(`�`)
			i += size
			continue
		}
		if r == ' ' || r == ' ' {
			sb.WriteString(`\u202`)
			sb.WriteByte(hex[r&0xF])
			i += size
			continue
		}
		sb.WriteString(s[i : i+size])
		i += size
	}
	sb.WriteByte('"')
	return sb.String()
}

func (e *jsonEnc) isEmpty(v value, t types.Type) bool {
	switch x := v.(type) {
	case bool:
		return !x
	case string:
		return x == ""
	case *SymStr:
		return len(x.b) == 0
	case []value:
		return len(x) == 0
	case *Map:
		return x == nil || len(x.entries) == 0
	case *value:
		return x == nil
	case iface:
		return x.t == nil
	case *Term:
		if x.Sort == SBool {
			return !e.m.decide(x)
		}
		return e.m.decide(e.m.ts.Eq(x, e.m.ts.Int(0)))
	case float64:
		return x == 0
	case float32:
		return x == 0
	case structure, array:
		return false
	}
	if isInteger(v) {
		return asInt64(v) == 0 && asUint64(v) == 0
	}
	return false
}

func (e *jsonEnc) enc(v value, t types.Type) {
	m := e.m
	if e.err != "" {
		return
	}
	// json.Marshaler (other than the types handled natively)
	if pt, ok := t.Underlying().(*types.Pointer); ok && isBigInt(pt.Elem()) {
		p := v.(*value)
		if p == nil {
			e.ws("null")
			return
		}
		switch x := bigGet(m, p).(type) {
		case *big.Int:
			e.ws(x.String())
		case *Term:
			e.out = append(e.out, strBytes(m.decimalString(x))...)
		}
		return
	}
	if isBigInt(t) {
		st := v.(structure)
		switch x := st[0].(type) {
		case *big.Int:
			e.ws(x.String())
		case *Term:
			e.out = append(e.out, strBytes(m.decimalString(x))...)
		default:
			e.ws("0")
		}
		return
	}
	if _, isIface := t.Underlying().(*types.Interface); !isIface {
		if f := m.findMethod(t, "MarshalJSON"); f != nil {
			if p, ok := v.(*value); ok && p == nil {
				e.ws("null")
				return
			}
			r := call(m, e.fr, 0, f, []value{v}).(tuple)
			if er := r[1].(iface); er.t != nil {
				e.err = "json: error calling MarshalJSON"
				return
			}
			e.out = append(e.out, r[0].([]value)...)
			return
		}
	}
	switch ut := t.Underlying().(type) {
	case *types.Basic:
		switch {
		case ut.Info()&types.IsBoolean != 0:
			switch x := v.(type) {
			case bool:
				e.ws(strconv.FormatBool(x))
			case *Term:
				if m.decide(x) {
					e.ws("true")
				} else {
					e.ws("false")
				}
			}
		case ut.Info()&types.IsString != 0:
			e.str(v)
		case ut.Info()&types.IsInteger != 0:
			if x, ok := v.(*Term); ok {
				e.out = append(e.out, strBytes(m.decimalString(x))...)
			} else if isSignedVal(v) {
				e.ws(strconv.FormatInt(asInt64(v), 10))
			} else {
				e.ws(strconv.FormatUint(asUint64(v), 10))
			}
		case ut.Info()&types.IsFloat != 0:
			var f float64
			bits := 64
			switch x := v.(type) {
			case float64:
				f = x
			case float32:
				f = float64(x)
				bits = 32
			default:
				m.unsupported("json: symbolic float")
			}
			if math.IsInf(f, 0) || math.IsNaN(f) {
				e.err = "json: unsupported value: " + strconv.FormatFloat(f, 'g', -1, bits)
				return
			}
			e.ws(jsonFloat(f, bits))
		default:
			m.unsupported("json: basic type " + ut.String())
		}
	case *types.Pointer:
		p := v.(*value)
		if p == nil {
			e.ws("null")
			return
		}
		e.enc(copyVal(*p), ut.Elem())
	case *types.Struct:
		s := v.(structure)
		e.ws("{")
		first := true
		e.encStructFields(s, ut, &first)
		e.ws("}")
	case *types.Map:
		mp := v.(*Map)
		if mp == nil {
			e.ws("null")
			return
		}
		if b, ok := ut.Key().Underlying().(*types.Basic); !ok || b.Info()&types.IsString == 0 {
			m.unsupported("json: map with non-string key")
		}
		ents := append([]*mapEntry{}, mp.entries...)
		for _, en := range ents {
			if _, ok := en.key.(string); !ok {
				m.unsupported("json: map with symbolic key")
			}
		}
		sort.Slice(ents, func(i, j int) bool { return ents[i].key.(string) < ents[j].key.(string) })
		e.ws("{")
		for i, en := range ents {
			if i > 0 {
				e.ws(",")
			}
			e.str(en.key)
			e.ws(":")
			e.enc(en.val, ut.Elem())
		}
		e.ws("}")
	case *types.Slice:
		sl := v.([]value)
		if sl == nil {
			e.ws("null")
			return
		}
		if b, ok := ut.Elem().Underlying().(*types.Basic); ok && b.Kind() == types.Uint8 {
			cb, ok := concBytes(sl)
			if !ok {
				e.out = append(e.out, uint8('"'))
				e.out = append(e.out, m.base64Enc(sl)...)
				e.out = append(e.out, uint8('"'))
				return
			}
			e.ws(`"` + base64.StdEncoding.EncodeToString(cb) + `"`)
			return
		}
		e.ws("[")
		for i, x := range sl {
			if i > 0 {
				e.ws(",")
			}
			e.enc(x, ut.Elem())
		}
		e.ws("]")
	case *types.Array:
		a := v.(array)
		e.ws("[")
		for i, x := range a {
			if i > 0 {
				e.ws(",")
			}
			e.enc(x, ut.Elem())
		}
		e.ws("]")
	case *types.Interface:
		it := v.(iface)
		if it.t == nil {
			e.ws("null")
			return
		}
		e.enc(it.v, it.t)
	default:
		m.unsupported("json: cannot encode " + t.String())
	}
}

func (e *jsonEnc) encStructFields(s structure, st *types.Struct, first *bool) {
	for _, f := range jsonFields(st) {
		fv := s[f.idx]
		if f.embedded {
			if est, ok := f.typ.Underlying().(*types.Struct); ok {
				e.encStructFields(fv.(structure), est, first)
				continue
			}
			if pt, ok := f.typ.Underlying().(*types.Pointer); ok {
				if est, ok := pt.Elem().Underlying().(*types.Struct); ok {
					if p := fv.(*value); p != nil {
						e.encStructFields((*p).(structure), est, first)
					}
					continue
				}
			}
		}
		if f.omitempty && e.isEmpty(fv, f.typ) {
			continue
		}
		if !*first {
			e.ws(",")
		}
		*first = false
		e.str(f.name)
		e.ws(":")
		if f.asString {
			e.ws(`"`)
			e.enc(fv, f.typ)
			e.ws(`"`)
		} else {
			e.enc(fv, f.typ)
		}
	}
}

func jsonFloat(f float64, bits int) string {
	abs := math.Abs(f)
	fmtc := byte('f')
	if abs != 0 {
		if bits == 64 && (abs < 1e-6 || abs >= 1e21) || bits == 32 && (float32(abs) < 1e-6 || float32(abs) >= 1e21) {
			fmtc = 'e'
		}
	}
	b := strconv.AppendFloat(nil, f, fmtc, -1, bits)
	if fmtc == 'e' {
		n := len(b)
		if n >= 4 && b[n-4] == 'e' && b[n-3] == '-' && b[n-2] == '0' {
			b[n-2] = b[n-1]
			b = b[:n-1]
		}
	}
	return string(b)
}

// base64Enc encodes possibly symbolic bytes with the standard alphabet.
func (m *machine) base64Enc(b []value) []value {
	ts := m.ts
	sym := func(i int) *Term { return m.termOf(b[i]) }
	char := func(v *Term) value {
		// v in [0,64)
		r := ts.Ite(ts.Lt(v, ts.Int(26)), ts.Add(v, ts.Int('A')),
			ts.Ite(ts.Lt(v, ts.Int(52)), ts.Add(v, ts.Int('a'-26)),
				ts.Ite(ts.Lt(v, ts.Int(62)), ts.Add(v, ts.Int('0'-52)),
					ts.Ite(ts.Eq(v, ts.Int(62)), ts.Int('+'), ts.Int('/')))))
		if r.IsConst() {
			return uint8(r.Val.Int64())
		}
		return r
	}
	var out []value
	for i := 0; i < len(b); i += 3 {
		n := len(b) - i
		b0 := sym(i)
		var b1, b2 *Term = ts.Int(0), ts.Int(0)
		if n > 1 {
			b1 = sym(i + 1)
		}
		if n > 2 {
			b2 = sym(i + 2)
		}
		c0 := ts.DivE(b0, big.NewInt(4))
		c1 := ts.Add(ts.Mul(ts.ModE(b0, big.NewInt(4)), ts.Int(16)), ts.DivE(b1, big.NewInt(16)))
		c2 := ts.Add(ts.Mul(ts.ModE(b1, big.NewInt(16)), ts.Int(4)), ts.DivE(b2, big.NewInt(64)))
		c3 := ts.ModE(b2, big.NewInt(64))
		out = append(out, char(c0), char(c1))
		if n > 1 {
			out = append(out, char(c2))
		} else {
			out = append(out, uint8('='))
		}
		if n > 2 {
			out = append(out, char(c3))
		} else {
			out = append(out, uint8('='))
		}
	}
	return out
}

func (m *machine) jsonMarshal(fr *frame, v iface) ([]value, string) {
	e := &jsonEnc{m: m, fr: fr, out: []value{}}
	if v.t == nil {
		e.ws("null")
		return e.out, ""
	}
	e.enc(v.v, v.t)
	return e.out, e.err
}

// ---------------------------------------------------------------- decode

type jsonDec struct {
	m   *machine
	fr  *frame
	b   []value
	pos int
	err string
}

func (d *jsonDec) peek() (byte, bool) {
	for d.pos < len(d.b) {
		c, ok := d.b[d.pos].(uint8)
		if !ok {
			return 0, false // symbolic byte at a structural position
		}
		if c == ' ' || c == '\t' || c == '\n' || c == '\r' {
			d.pos++
			continue
		}
		return c, true
	}
	return 0, true
}

func (d *jsonDec) fail(msg string) {
	if d.err == "" {
		d.err = msg
	}
}

func (d *jsonDec) expect(c byte) bool {
	x, ok := d.peek()
	if !ok {
		d.m.unsupported("json: symbolic byte at structural position")
	}
	if d.pos >= len(d.b) || x != c {
		d.fail(fmt.Sprintf("invalid character looking for %q", c))
		return false
	}
	d.pos++
	return true
}

// scanString returns the raw bytes between quotes (escapes decoded for concrete bytes).
func (d *jsonDec) scanString() ([]value, bool) {
	if !d.expect('"') {
		return nil, false
	}
	var out []value
	for d.pos < len(d.b) {
		c := d.b[d.pos]
		if t, ok := c.(*Term); ok {
			// a symbolic byte inside a string: must be a plain character
			ts := d.m.ts
			plain := ts.And(ts.Le(ts.Int(0x20), t), ts.Le(t, ts.Int(0x7e)), ts.Not(ts.Eq(t, ts.Int('"'))), ts.Not(ts.Eq(t, ts.Int('\\'))))
			if !d.m.decide(plain) {
				d.m.unsupported("json: symbolic string byte that is a quote, escape or non-ASCII")
			}
			out = append(out, t)
			d.pos++
			continue
		}
		u := c.(uint8)
		d.pos++
		switch {
		case u == '"':
			if out == nil {
				out = []value{}
			}
			return out, true
		case u == '\\':
			if d.pos >= len(d.b) {
				d.fail("unexpected end of JSON input")
				return nil, false
			}
			e, ok := d.b[d.pos].(uint8)
			if !ok {
				d.m.unsupported("json: symbolic escape")
			}
			d.pos++
			switch e {
			case '"', '\\', '/':
				out = append(out, e)
			case 'n':
				out = append(out, uint8('\n'))
			case 't':
				out = append(out, uint8('\t'))
			case 'r':
				out = append(out, uint8('\r'))
			case 'b':
				out = append(out, uint8('\b'))
			case 'f':
				out = append(out, uint8('\f'))
			case 'u':
				if d.pos+4 > len(d.b) {
					d.fail("unexpected end of JSON input")
					return nil, false
				}
				hx, ok := concBytes(d.b[d.pos : d.pos+4])
				if !ok {
					d.m.unsupported("json: symbolic \\u escape")
				}
				r, err := strconv.ParseUint(string(hx), 16, 32)
				if err != nil {
					d.fail("invalid character in \\u escape")
					return nil, false
				}
				d.pos += 4
				out = append(out, strBytes(string(rune(r)))...)
			default:
				d.fail("invalid character in string escape code")
				return nil, false
			}
		case u < 0x20:
			d.fail("invalid character in string literal")
			return nil, false
		default:
			out = append(out, u)
		}
	}
	d.fail("unexpected end of JSON input")
	return nil, false
}

// scanNumber returns the bytes of a number token.
func (d *jsonDec) scanNumber() []value {
	start := d.pos
	for d.pos < len(d.b) {
		c := d.b[d.pos]
		if u, ok := c.(uint8); ok {
			if (u >= '0' && u <= '9') || u == '-' || u == '+' || u == '.' || u == 'e' || u == 'E' {
				d.pos++
				continue
			}
			break
		}
		// symbolic byte inside a number: digit (decided by parseDecimal later)
		d.pos++
	}
	return d.b[start:d.pos]
}

// skipValue parses and discards a value, returning a generic representation.
func (d *jsonDec) generic() value {
	m := d.m
	c, ok := d.peek()
	if !ok {
		m.unsupported("json: symbolic byte at value start")
	}
	anyT := m.eng.anyType()
	switch {
	case c == '{':
		d.pos++
		mp := newMap(types.NewMap(types.Typ[types.String], anyT))
		if x, _ := d.peek(); x == '}' {
			d.pos++
			return iface{t: mp.typ, v: mp}
		}
		for {
			k, ok := d.scanString()
			if !ok {
				return iface{}
			}
			if !d.expect(':') {
				return iface{}
			}
			v := d.generic()
			mp.insert(m, mkStr(k), v)
			x, _ := d.peek()
			if x == ',' {
				d.pos++
				continue
			}
			if !d.expect('}') {
				return iface{}
			}
			return iface{t: mp.typ, v: mp}
		}
	case c == '[':
		d.pos++
		st := types.NewSlice(anyT)
		out := []value{}
		if x, _ := d.peek(); x == ']' {
			d.pos++
			return iface{t: st, v: out}
		}
		for {
			out = append(out, d.generic())
			x, _ := d.peek()
			if x == ',' {
				d.pos++
				continue
			}
			if !d.expect(']') {
				return iface{}
			}
			return iface{t: st, v: out}
		}
	case c == '"':
		s, _ := d.scanString()
		return iface{t: types.Typ[types.String], v: mkStr(s)}
	case c == 't':
		d.lit("true")
		return iface{t: types.Typ[types.Bool], v: true}
	case c == 'f':
		d.lit("false")
		return iface{t: types.Typ[types.Bool], v: false}
	case c == 'n':
		d.lit("null")
		return iface{}
	default:
		nb := d.scanNumber()
		cb, ok := concBytes(nb)
		if !ok {
			m.unsupported("json: symbolic number decoded into interface{} (float64)")
		}
		f, err := strconv.ParseFloat(string(cb), 64)
		if err != nil {
			d.fail("invalid number literal")
		}
		return iface{t: types.Typ[types.Float64], v: f}
	}
}

func (d *jsonDec) lit(s string) {
	if d.pos+len(s) > len(d.b) {
		d.fail("unexpected end of JSON input")
		return
	}
	cb, ok := concBytes(d.b[d.pos : d.pos+len(s)])
	if !ok || string(cb) != s {
		d.fail("invalid character in literal " + s)
		return
	}
	d.pos += len(s)
}

func (e *engine) anyType() types.Type {
	t := types.NewInterfaceType(nil, nil)
	t.Complete()
	return t
}

// dec decodes the next value into the slot of type t.
func (d *jsonDec) dec(slot *value, t types.Type) {
	m := d.m
	if d.err != "" {
		return
	}
	c, ok := d.peek()
	if !ok {
		// a symbolic byte can only start a number (digits of a symbolic integer)
		numeric := isBigInt(t)
		if pt, isP := t.Underlying().(*types.Pointer); isP && isBigInt(pt.Elem()) {
			numeric = true
		}
		if b, isB := t.Underlying().(*types.Basic); isB && b.Info()&types.IsInteger != 0 {
			numeric = true
		}
		if !numeric {
			m.unsupported("json: symbolic byte at value start")
		}
		c = '0'
	}
	if d.pos >= len(d.b) {
		d.fail("unexpected end of JSON input")
		return
	}
	// null: leaves most things untouched, clears pointers/maps/slices/interfaces
	if c == 'n' {
		d.lit("null")
		switch t.Underlying().(type) {
		case *types.Pointer, *types.Map, *types.Slice, *types.Interface:
			*slot = zero(t)
		}
		return
	}
	// big.Int
	if pt, ok := t.Underlying().(*types.Pointer); ok && isBigInt(pt.Elem()) {
		p := (*slot).(*value)
		if p == nil {
			p = newBigPtr(new(big.Int))
			*slot = p
		}
		d.decBig(p)
		return
	}
	if isBigInt(t) {
		tmp := newBigPtr(new(big.Int))
		d.decBig(tmp)
		(*slot).(structure)[0] = (*tmp).(structure)[0]
		return
	}
	if _, isIface := t.Underlying().(*types.Interface); !isIface {
		if f := m.findMethod(types.NewPointer(t), "UnmarshalJSON"); f != nil && !isBigInt(t) {
			start := d.pos
			d.generic()
			raw := d.b[start:d.pos]
			r := call(m, d.fr, 0, f, []value{slot, append([]value{}, raw...)})
			if er, ok := r.(iface); ok && er.t != nil {
				d.fail("json: UnmarshalJSON failed")
			}
			return
		}
	}
	switch ut := t.Underlying().(type) {
	case *types.Pointer:
		p := (*slot).(*value)
		if p == nil {
			z := zero(ut.Elem())
			p = &z
			*slot = p
		}
		d.dec(p, ut.Elem())
	case *types.Struct:
		if c != '{' {
			d.generic()
			d.fail("json: cannot unmarshal non-object into Go struct " + t.String())
			return
		}
		d.pos++
		s := (*slot).(structure)
		fields := jsonFields(ut)
		if x, _ := d.peek(); x == '}' {
			d.pos++
			return
		}
		for {
			kb, ok := d.scanString()
			if !ok {
				return
			}
			if !d.expect(':') {
				return
			}
			kc, isConc := concBytes(kb)
			if !isConc {
				m.unsupported("json: symbolic object key")
			}
			key := string(kc)
			var target *jsonField
			for i := range fields {
				if fields[i].name == key {
					target = &fields[i]
					break
				}
			}
			if target == nil {
				for i := range fields {
					if strings.EqualFold(fields[i].name, key) {
						target = &fields[i]
						break
					}
				}
			}
			if target == nil {
				d.generic()
			} else if target.asString {
				// quoted scalar
				sb, ok := d.scanString()
				if ok {
					sub := &jsonDec{m: m, fr: d.fr, b: sb}
					sub.dec(&s[target.idx], target.typ)
					if sub.err != "" {
						d.fail(sub.err)
					}
				}
			} else {
				d.dec(&s[target.idx], target.typ)
			}
			x, _ := d.peek()
			if x == ',' {
				d.pos++
				continue
			}
			d.expect('}')
			return
		}
	case *types.Map:
		if c != '{' {
			d.generic()
			d.fail("json: cannot unmarshal non-object into Go map")
			return
		}
		d.pos++
		mp := (*slot).(*Map)
		if mp == nil {
			mp = newMap(ut)
			*slot = mp
		}
		if x, _ := d.peek(); x == '}' {
			d.pos++
			return
		}
		for {
			kb, ok := d.scanString()
			if !ok {
				return
			}
			if !d.expect(':') {
				return
			}
			val := zero(ut.Elem())
			d.dec(&val, ut.Elem())
			mp.insert(m, mkStr(kb), val)
			x, _ := d.peek()
			if x == ',' {
				d.pos++
				continue
			}
			d.expect('}')
			return
		}
	case *types.Slice:
		if b, ok := ut.Elem().Underlying().(*types.Basic); ok && b.Kind() == types.Uint8 && c == '"' {
			sb, ok := d.scanString()
			if !ok {
				return
			}
			cb, isConc := concBytes(sb)
			if !isConc {
				m.unsupported("json: base64 decoding of symbolic text")
			}
			raw, err := base64.StdEncoding.DecodeString(string(cb))
			if err != nil {
				d.fail("illegal base64 data")
				return
			}
			out := bytesToValues(raw)
			if out == nil {
				out = []value{}
			}
			*slot = out
			return
		}
		if c != '[' {
			d.generic()
			d.fail("json: cannot unmarshal non-array into Go slice")
			return
		}
		d.pos++
		out := []value{}
		if x, _ := d.peek(); x == ']' {
			d.pos++
			*slot = out
			return
		}
		for {
			el := zero(ut.Elem())
			d.dec(&el, ut.Elem())
			out = append(out, el)
			x, _ := d.peek()
			if x == ',' {
				d.pos++
				continue
			}
			d.expect(']')
			*slot = out
			return
		}
	case *types.Interface:
		if ut.NumMethods() != 0 {
			d.generic()
			d.fail("json: cannot unmarshal into non-empty interface")
			return
		}
		*slot = d.generic()
	case *types.Basic:
		switch {
		case ut.Info()&types.IsString != 0:
			if c != '"' {
				d.generic()
				d.fail("json: cannot unmarshal non-string into Go string")
				return
			}
			sb, ok := d.scanString()
			if ok {
				*slot = mkStr(sb)
			}
		case ut.Info()&types.IsBoolean != 0:
			if c == 't' {
				d.lit("true")
				*slot = true
			} else if c == 'f' {
				d.lit("false")
				*slot = false
			} else {
				d.generic()
				d.fail("json: cannot unmarshal into Go bool")
			}
		case ut.Info()&types.IsInteger != 0:
			if c == '"' || c == '{' || c == '[' || c == 't' || c == 'f' {
				d.generic()
				d.fail("json: cannot unmarshal non-number into Go integer")
				return
			}
			nb := d.scanNumber()
			k, _ := intInfo(t)
			if cb, ok := concBytes(nb); ok {
				if k.signed {
					n, err := strconv.ParseInt(string(cb), 10, k.bits)
					if err != nil {
						d.fail("json: cannot unmarshal number " + string(cb) + " into Go integer")
						return
					}
					*slot = fromInt64(k.kind, n)
				} else {
					n, err := strconv.ParseUint(string(cb), 10, k.bits)
					if err != nil {
						d.fail("json: cannot unmarshal number " + string(cb) + " into Go integer")
						return
					}
					*slot = fromUint64(k.kind, n)
				}
				return
			}
			tm, ok := m.parseDecimal(nb, k.signed)
			if !ok {
				d.fail("json: invalid number")
				return
			}
			inRange := m.ts.And(m.ts.Le(m.ts.IntBig(k.min()), tm), m.ts.Le(tm, m.ts.IntBig(k.max())))
			if !m.decide(inRange) {
				d.fail("json: number out of range")
				return
			}
			*slot = tm
		case ut.Info()&types.IsFloat != 0:
			nb := d.scanNumber()
			cb, ok := concBytes(nb)
			if !ok {
				m.unsupported("json: symbolic float")
			}
			f, err := strconv.ParseFloat(string(cb), 64)
			if err != nil {
				d.fail("json: invalid number")
				return
			}
			if ut.Kind() == types.Float32 {
				*slot = float32(f)
			} else {
				*slot = f
			}
		default:
			m.unsupported("json: decode into " + t.String())
		}
	default:
		m.unsupported("json: decode into " + t.String())
	}
}

func (d *jsonDec) decBig(p *value) {
	m := d.m
	c, ok := d.peek()
	if !ok {
		c = '0'
	}
	var nb []value
	if c == '"' {
		// big.Int.UnmarshalJSON accepts only numbers; quoted text is an error
		d.generic()
		d.fail("math/big: cannot unmarshal string into a *big.Int")
		return
	}
	nb = d.scanNumber()
	if cb, ok := concBytes(nb); ok {
		z, ok := new(big.Int).SetString(string(cb), 10)
		if !ok {
			d.fail("math/big: cannot unmarshal " + string(cb) + " into a *big.Int")
			return
		}
		bigSet(p, z)
		return
	}
	tm, ok := m.parseDecimal(nb, true)
	if !ok {
		d.fail("math/big: cannot unmarshal into a *big.Int")
		return
	}
	bigSet(p, bigNorm(tm))
}

func (m *machine) jsonUnmarshal(fr *frame, data []value, target iface) string {
	if target.t == nil {
		return "json: Unmarshal(nil)"
	}
	pt, ok := target.t.Underlying().(*types.Pointer)
	if !ok {
		return "json: Unmarshal(non-pointer " + target.t.String() + ")"
	}
	p := target.v.(*value)
	if p == nil {
		return "json: Unmarshal(nil " + target.t.String() + ")"
	}
	d := &jsonDec{m: m, fr: fr, b: data}
	d.dec(p, pt.Elem())
	if d.err == "" {
		if _, ok := d.peek(); ok && d.pos < len(d.b) {
			d.fail("invalid character after top-level value")
		}
	}
	return d.err
}

func registerJSON(e *engine) {
	e.reg("encoding/json.Marshal", func(fr *frame, fn *ssa.Function, a []value) value {
		m := fr.m
		out, err := m.jsonMarshal(fr, a[0].(iface))
		if err != "" {
			return tuple{[]value(nil), m.mkError(err)}
		}
		return tuple{out, iface{}}
	})
	e.reg("encoding/json.MarshalIndent", func(fr *frame, fn *ssa.Function, a []value) value {
		m := fr.m
		out, err := m.jsonMarshal(fr, a[0].(iface))
		if err != "" {
			return tuple{[]value(nil), m.mkError(err)}
		}
		return tuple{out, iface{}}
	})
	e.reg("encoding/json.Unmarshal", func(fr *frame, fn *ssa.Function, a []value) value {
		m := fr.m
		if err := m.jsonUnmarshal(fr, a[0].([]value), a[1].(iface)); err != "" {
			return m.mkError(err)
		}
		return iface{}
	})
	e.reg("encoding/json.Valid", func(fr *frame, fn *ssa.Function, a []value) value {
		m := fr.m
		d := &jsonDec{m: m, fr: fr, b: a[0].([]value)}
		d.generic()
		if d.err == "" {
			if _, ok := d.peek(); ok && d.pos < len(d.b) {
				return false
			}
		}
		return d.err == ""
	})
	// Encoder over an io.Writer: slot 0 of the Encoder struct holds the writer
	e.reg("encoding/json.NewEncoder", func(fr *frame, fn *ssa.Function, a []value) value {
		encT := deref(fn.Signature.Results().At(0).Type())
		z := zero(encT)
		z.(structure)[0] = a[0]
		return &z
	})
	e.reg("(*encoding/json.Encoder).Encode", func(fr *frame, fn *ssa.Function, a []value) value {
		m := fr.m
		s := structOf(a[0])
		w := s[0].(iface)
		out, err := m.jsonMarshal(fr, a[1].(iface))
		if err != "" {
			return m.mkError(err)
		}
		out = append(out, uint8('\n'))
		wf := m.eng.prog.LookupMethod(w.t, nil, "Write")
		if wf == nil {
			m.unsupported("json.Encoder over writer without Write")
		}
		r := call(m, fr, 0, wf, []value{w.v, out}).(tuple)
		return r[1]
	})
	// Decoder over a *bytes.Buffer / *bytes.Reader-like source exposing Bytes() and Next(n)
	e.reg("encoding/json.NewDecoder", func(fr *frame, fn *ssa.Function, a []value) value {
		dt := deref(fn.Signature.Results().At(0).Type())
		z := zero(dt)
		z.(structure)[0] = a[0]
		return &z
	})
	e.reg("(*encoding/json.Decoder).Decode", func(fr *frame, fn *ssa.Function, a []value) value {
		m := fr.m
		s := structOf(a[0])
		r := s[0].(iface)
		bf := m.eng.prog.LookupMethod(r.t, nil, "Bytes")
		nf := m.eng.prog.LookupMethod(r.t, nil, "Next")
		if bf == nil || nf == nil {
			m.unsupported("json.Decoder over a reader without Bytes/Next: " + r.t.String())
		}
		data := call(m, fr, 0, bf, []value{r.v}).([]value)
		target := a[1].(iface)
		if target.t == nil {
			return m.mkError("json: Unmarshal(nil)")
		}
		pt, ok := target.t.Underlying().(*types.Pointer)
		if !ok || target.v.(*value) == nil {
			return m.mkError("json: Unmarshal(non-pointer)")
		}
		d := &jsonDec{m: m, fr: fr, b: data}
		if _, ok := d.peek(); ok && d.pos >= len(d.b) {
			return m.globalError("io.EOF")
		}
		d.dec(target.v.(*value), pt.Elem())
		call(m, fr, 0, nf, []value{r.v, d.pos})
		if d.err != "" {
			return m.mkError(d.err)
		}
		return iface{}
	})
	e.reg("(*encoding/json.Decoder).UseNumber", func(fr *frame, fn *ssa.Function, a []value) value { return nil })
	e.reg("(*encoding/json.Encoder).SetEscapeHTML", func(fr *frame, fn *ssa.Function, a []value) value { return nil })
	e.reg("(*encoding/json.Encoder).SetIndent", func(fr *frame, fn *ssa.Function, a []value) value { return nil })
}

// globalError returns the value of an external error variable such as io.EOF.
func (m *machine) globalError(name string) value {
	i := strings.LastIndex(name, ".")
	if pkg := m.eng.prog.ImportedPackage(name[:i]); pkg != nil {
		if g, ok := pkg.Members[name[i+1:]].(*ssa.Global); ok {
			return *m.globalAddr(g)
		}
	}
	return m.mkError(name)
}
