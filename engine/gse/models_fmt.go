package main

import (
	"fmt"
	"go/types"
	"math/big"
	"strings"

	"golang.org/x/tools/go/ssa"
)

type opaqueFmt struct{ s string }

func (o opaqueFmt) Format(f fmt.State, verb rune) { f.Write([]byte(o.s)) }

type nativeErr struct{ s string }

func (e nativeErr) Error() string { return e.s }

// methodString calls Error() or String() on a value if its type has one.
func (m *machine) methodString(fr *frame, it iface) (value, bool) {
	if it.t == nil {
		return nil, false
	}
	for _, name := range []string{"Error", "String"} {
		ms := m.eng.prog.MethodSets.MethodSet(it.t)
		sel := ms.Lookup(nil, name)
		if sel == nil {
			// unexported lookups need the package; try by scanning
			for i := 0; i < ms.Len(); i++ {
				if ms.At(i).Obj().Name() == name {
					sel = ms.At(i)
				}
			}
		}
		if sel == nil {
			continue
		}
		sig := sel.Type().(*types.Signature)
		if sig.Params().Len() != 0 || sig.Results().Len() != 1 {
			continue
		}
		if b, ok := sig.Results().At(0).Type().Underlying().(*types.Basic); !ok || b.Kind() != types.String {
			continue
		}
		f := m.eng.prog.MethodValue(sel)
		if f == nil {
			continue
		}
		// nil pointer receivers: fmt prints <nil>
		if p, ok := it.v.(*value); ok && p == nil {
			return "<nil>", true
		}
		r := call(m, fr, 0, f, []value{it.v})
		return r, true
	}
	return nil, false
}

// toNative converts a concrete interpreter value for use with the real fmt.
func (m *machine) toNative(fr *frame, it iface, verb byte) (interface{}, bool) {
	if it.t == nil {
		return nil, true
	}
	if verb == 'v' || verb == 's' || verb == 'q' {
		if s, ok := m.methodString(fr, it); ok {
			if cs, ok := s.(string); ok {
				return cs, true
			}
			return nil, false
		}
	}
	switch v := it.v.(type) {
	case *Term, *SymStr:
		return nil, false
	case bool, string, float32, float64, complex64, complex128:
		return v, true
	case []value:
		if sl, ok := it.t.Underlying().(*types.Slice); ok {
			if b, ok := sl.Elem().Underlying().(*types.Basic); ok && b.Kind() == types.Uint8 {
				cb, ok := concBytes(v)
				if !ok {
					return nil, false
				}
				if v == nil {
					return []byte(nil), true
				}
				return cb, true
			}
			out := make([]interface{}, len(v))
			for i := range v {
				n, ok := m.toNative(fr, m.asIface(sl.Elem(), v[i]), verb)
				if !ok {
					return nil, false
				}
				out[i] = n
			}
			return out, true
		}
	case *value:
		if v == nil {
			return opaqueFmt{"<nil>"}, true
		}
		if verb == 'p' {
			return opaqueFmt{fmt.Sprintf("%p", v)}, true
		}
		return opaqueFmt{"&" + toString(*v)}, true
	case iface:
		return m.toNative(fr, v, verb)
	}
	if isInteger(it.v) {
		return it.v, true
	}
	if hasSym(it.v) {
		return nil, false
	}
	return opaqueFmt{toString(it.v)}, true
}

func hasSym(v value) bool {
	switch v := v.(type) {
	case *Term, *SymStr:
		return true
	case structure:
		for _, f := range v {
			if hasSym(f) {
				return true
			}
		}
	case array:
		for _, f := range v {
			if hasSym(f) {
				return true
			}
		}
	case []value:
		for _, f := range v {
			if hasSym(f) {
				return true
			}
		}
	case iface:
		return hasSym(v.v)
	case *value:
		if v != nil {
			// do not chase pointers deeply
			switch (*v).(type) {
			case *Term, *SymStr:
				return true
			}
		}
	}
	return false
}

func (m *machine) asIface(t types.Type, v value) iface {
	if _, ok := t.Underlying().(*types.Interface); ok {
		if it, ok := v.(iface); ok {
			return it
		}
	}
	return iface{t: t, v: v}
}

// fmtValue formats one operand under a verb, returning bytes that may be symbolic.
func (m *machine) fmtValueBytes(fr *frame, it iface, spec string, verb byte) []value {
	if n, ok := m.toNative(fr, it, verb); ok {
		return strBytes(fmt.Sprintf("%"+spec+string(verb), n))
	}
	// symbolic operand
	var v value = it.v
	if verb == 'v' || verb == 's' {
		if s, ok := m.methodString(fr, it); ok {
			return strBytes(s)
		}
	}
	for {
		if inner, ok := v.(iface); ok {
			v = inner.v
			continue
		}
		break
	}
	switch x := v.(type) {
	case *SymStr:
		switch verb {
		case 's', 'v':
			return strBytes(x)
		case 'x':
			return m.hexBytes(x.b)
		}
	case []value:
		switch verb {
		case 's':
			return append([]value{}, x...)
		case 'x':
			return m.hexBytes(x)
		case 'v':
			// [1 2 3] form with symbolic numbers: approximate
		}
	case *Term:
		if x.Sort == SInt && (verb == 'd' || verb == 'v') {
			s := strBytes(m.decimalString(x))
			// width / zero padding
			if w := parseWidth(spec); w > len(s) {
				pad := uint8(' ')
				if strings.HasPrefix(spec, "0") {
					pad = '0'
				}
				p := make([]value, w-len(s))
				for i := range p {
					p[i] = pad
				}
				if strings.HasPrefix(spec, "-") {
					s = append(s, p...)
				} else {
					s = append(p, s...)
				}
			}
			return s
		}
		if x.Sort == SBool {
			if m.decide(x) {
				return strBytes("true")
			}
			return strBytes("false")
		}
	}
	m.models.approxFmt++
	return strBytes("⟨sym⟩")
}

func parseWidth(spec string) int {
	w := 0
	for _, c := range spec {
		if c >= '0' && c <= '9' {
			w = w*10 + int(c-'0')
		} else if c == '.' {
			break
		}
	}
	return w
}

func (m *machine) hexBytes(b []value) []value {
	ts := m.ts
	out := make([]value, 0, 2*len(b))
	dig := func(n *Term) value {
		r := ts.Ite(ts.Lt(n, ts.Int(10)), ts.Add(n, ts.Int('0')), ts.Add(n, ts.Int('a'-10)))
		if r.IsConst() {
			return uint8(r.Val.Int64())
		}
		return r
	}
	for _, x := range b {
		t := m.termOf(x)
		out = append(out, dig(ts.DivE(t, big.NewInt(16))), dig(ts.ModE(t, big.NewInt(16))))
	}
	return out
}

func (m *machine) fmtValue(fr *frame, it iface, verb byte, _ bool) string {
	b := m.fmtValueBytes(fr, it, "", verb)
	s := mkStr(b)
	if cs, ok := s.(string); ok {
		return cs
	}
	return toString(s)
}

func (m *machine) sprintf(fr *frame, format value, args []value) value {
	f, ok := format.(string)
	if !ok {
		m.unsupported("symbolic format string")
	}
	var out []value
	ai := 0
	for i := 0; i < len(f); i++ {
		c := f[i]
		if c != '%' {
			out = append(out, c)
			continue
		}
		j := i + 1
		for j < len(f) && strings.IndexByte("+-# 0123456789.*", f[j]) >= 0 {
			j++
		}
		if j >= len(f) {
			out = append(out, strBytes("%!(NOVERB)")...)
			break
		}
		verb := f[j]
		spec := f[i+1 : j]
		i = j
		if verb == '%' {
			out = append(out, uint8('%'))
			continue
		}
		if strings.Contains(spec, "*") {
			m.unsupported("fmt width from argument")
		}
		if ai >= len(args) {
			out = append(out, strBytes("%!"+string(verb)+"(MISSING)")...)
			continue
		}
		it := args[ai].(iface)
		ai++
		out = append(out, m.fmtValueBytes(fr, it, spec, verb)...)
	}
	if ai < len(args) {
		out = append(out, strBytes("%!(EXTRA)")...)
	}
	return mkStr(out)
}

func (m *machine) sprint(fr *frame, args []value, ln bool) value {
	var out []value
	prevString := true
	for i, a := range args {
		it := a.(iface)
		isString := false
		if it.t != nil {
			if b, ok := it.t.Underlying().(*types.Basic); ok && b.Info()&types.IsString != 0 {
				isString = true
			}
		}
		if i > 0 && (ln || (!isString && !prevString)) {
			out = append(out, uint8(' '))
		}
		out = append(out, m.fmtValueBytes(fr, it, "", 'v')...)
		prevString = isString
	}
	if ln {
		out = append(out, uint8('\n'))
	}
	return mkStr(out)
}

func (m *machine) mkError(msg value) iface {
	var et types.Type
	if ep := m.eng.prog.ImportedPackage("errors"); ep != nil {
		et = types.NewPointer(ep.Type("errorString").Type())
	} else {
		panic(engineError{"package errors not loaded"})
	}
	var s value = structure{msg}
	return iface{t: et, v: &s}
}

func registerFmt(e *engine) {
	e.reg("fmt.Sprintf", func(fr *frame, fn *ssa.Function, a []value) value {
		return fr.m.sprintf(fr, a[0], a[1].([]value))
	})
	e.reg("fmt.Errorf", func(fr *frame, fn *ssa.Function, a []value) value {
		// %w wrapping: message only; errors.Is on wrapped errors is outside the model
		f, _ := a[0].(string)
		f = strings.ReplaceAll(f, "%w", "%v")
		return fr.m.mkError(fr.m.sprintf(fr, f, a[1].([]value)))
	})
	e.reg("fmt.Sprint", func(fr *frame, fn *ssa.Function, a []value) value {
		return fr.m.sprint(fr, a[0].([]value), false)
	})
	e.reg("fmt.Sprintln", func(fr *frame, fn *ssa.Function, a []value) value {
		return fr.m.sprint(fr, a[0].([]value), true)
	})
	discard := func(fr *frame, fn *ssa.Function, a []value) value { return tuple{0, iface{}} }
	for _, n := range []string{"fmt.Printf", "fmt.Println", "fmt.Print", "fmt.Fprintf", "fmt.Fprintln", "fmt.Fprint"} {
		e.reg(n, discard)
	}
	e.reg("fmt.Sscanf", func(fr *frame, fn *ssa.Function, a []value) value {
		m := fr.m
		s, ok1 := a[0].(string)
		f, ok2 := a[1].(string)
		if !ok1 || !ok2 {
			m.unsupported("symbolic fmt.Sscanf")
		}
		args := a[2].([]value)
		natives := make([]interface{}, len(args))
		holders := make([]interface{}, len(args))
		for i, x := range args {
			p := x.(iface)
			el := deref(p.t)
			switch b := el.Underlying().(type) {
			case *types.Basic:
				switch {
				case b.Kind() == types.String:
					var h string
					holders[i], natives[i] = &h, &h
				case b.Kind() == types.Int64:
					var h int64
					holders[i], natives[i] = &h, &h
				case b.Kind() == types.Int:
					var h int
					holders[i], natives[i] = &h, &h
				case b.Kind() == types.Int32:
					var h int32
					holders[i], natives[i] = &h, &h
				default:
					m.unsupported("fmt.Sscanf operand type " + b.String())
				}
			case *types.Slice:
				if eb, ok := b.Elem().Underlying().(*types.Basic); ok && eb.Kind() == types.Uint8 {
					var h []byte
					holders[i], natives[i] = &h, &h
				} else {
					m.unsupported("fmt.Sscanf operand type " + el.String())
				}
			default:
				m.unsupported("fmt.Sscanf operand type " + el.String())
			}
		}
		n, err := fmt.Sscanf(s, f, natives...)
		for i, x := range args {
			p := x.(iface).v.(*value)
			switch h := holders[i].(type) {
			case *string:
				*p = *h
			case *int64:
				*p = *h
			case *int:
				*p = *h
			case *int32:
				*p = *h
			case *[]byte:
				*p = bytesToValues(*h)
			}
		}
		if err != nil {
			return tuple{n, m.mkError(err.Error())}
		}
		return tuple{n, iface{}}
	})
}
