#!/usr/bin/env python3
"""Solver-discharged lemmas behind axioms the executor assumes (see DESIGN.md 11.1).

crc32-burst: the reflected CRC-32 of hash/crc32 (IEEE polynomial, constant read from the Go
standard library source the build uses) detects every error pattern confined to a window of at
most 32 consecutive bits.  Three bit-vector lemmas, each decided by z3 (unsat of the negation):
  L1 linearity     step(s1^s2, b1^b2) = step(s1,b1) ^ step(s2,b2)      (one byte step, any registers)
  L2 injectivity   step(s,0) = 0  =>  s = 0                             (a zero byte keeps a non-zero difference non-zero)
  L3 window        e != 0 inside a 32-bit window of 5 bytes  =>  step^5(0,e) != 0
With L1 the difference of the registers of two equal-length streams evolves as step(d, a_i^b_i)
from d=0 (initial value and final xor cancel); it stays 0 before the window (step(0,0)=0 by L1),
is non-zero right after it (L3) and stays non-zero over the equal tail (L2).  That composition is
the textbook induction over the length and is not machine-checked.
"""
import os, re, subprocess, time


def ieee_poly():
    """the reflected IEEE polynomial as written in the Go standard library in use"""
    goroot = subprocess.run(["go", "env", "GOROOT"], stdout=subprocess.PIPE, text=True).stdout.strip()
    src = open(os.path.join(goroot, "src", "hash", "crc32", "crc32.go")).read()
    m = re.search(r"IEEE\s*=\s*(0x[0-9a-fA-F]+)", src)
    return int(m.group(1), 16)


def step_defs(poly):
    # one bit: s = (s >> 1) ^ (poly if s&1 else 0); one byte: s ^= zext(b), 8 bits
    d = [f"(define-fun bit ((s (_ BitVec 32))) (_ BitVec 32) (bvxor (bvlshr s #x00000001) (ite (= ((_ extract 0 0) s) #b1) #x{poly:08x} #x00000000)))"]
    d.append("(define-fun step ((s (_ BitVec 32)) (b (_ BitVec 8))) (_ BitVec 32) (bit (bit (bit (bit (bit (bit (bit (bit (bvxor s ((_ zero_extend 24) b)))))))))))")
    return "\n".join(d)


def queries(poly):
    defs = step_defs(poly)
    q = {}
    q["L1-linearity"] = defs + """
(declare-const s1 (_ BitVec 32)) (declare-const s2 (_ BitVec 32)) (declare-const b1 (_ BitVec 8)) (declare-const b2 (_ BitVec 8))
(assert (not (= (step (bvxor s1 s2) (bvxor b1 b2)) (bvxor (step s1 b1) (step s2 b2)))))
(check-sat)"""
    q["L2-zero-step-injective"] = defs + """
(declare-const s (_ BitVec 32))
(assert (= (step s #x00) #x00000000)) (assert (not (= s #x00000000)))
(check-sat)"""
    win = []
    for s in range(8):
        lo = f"(= (bvand e0 #x{(1 << s) - 1:02x}) #x00)"           # bits below the window start are clean
        hi = f"(= (bvlshr e4 #x{s:02x}) #x00)"                      # bits from s upward in the 5th byte are clean
        win.append(f"(and {lo} {hi})")
    q["L3-window-leaves-nonzero-register"] = defs + """
(declare-const e0 (_ BitVec 8)) (declare-const e1 (_ BitVec 8)) (declare-const e2 (_ BitVec 8)) (declare-const e3 (_ BitVec 8)) (declare-const e4 (_ BitVec 8))
(assert (or """ + " ".join(win) + """))
(assert (not (= (concat e0 e1 e2 e3 e4) #x0000000000)))
(assert (= (step (step (step (step (step #x00000000 e0) e1) e2) e3) e4) #x00000000))
(check-sat)"""
    # vacuity guard: the window constraint is satisfiable and a 33-bit pattern CAN collide (so L3 is not trivially true)
    q["W-witness-wider-pattern-can-collide"] = defs + """
(declare-const e0 (_ BitVec 8)) (declare-const e1 (_ BitVec 8)) (declare-const e2 (_ BitVec 8)) (declare-const e3 (_ BitVec 8)) (declare-const e4 (_ BitVec 8))
(assert (not (= (concat e0 e1 e2 e3 e4) #x0000000000)))
(assert (= (step (step (step (step (step #x00000000 e0) e1) e2) e3) e4) #x00000000))
(check-sat)"""
    return q


def discharge(name, timeout_s=120):
    """returns (ok, details)"""
    if name != "crc32-burst":
        return False, {"error": "unknown lemma " + name}
    poly = ieee_poly()
    res = {"polynomial": hex(poly), "queries": []}
    ok = True
    for qn, text in queries(poly).items():
        for solver in (["z3", "-in", f"-T:{timeout_s}"], ["z3-new", "-in", f"-T:{timeout_s}"]):
            t0 = time.time()
            try:
                r = subprocess.run(solver, input=text, stdout=subprocess.PIPE, stderr=subprocess.STDOUT, text=True, timeout=timeout_s + 30)
                out = r.stdout.strip()
            except Exception as e:  # noqa
                out = "error: " + str(e)
            want = "sat" if qn.startswith("W-") else "unsat"
            good = out.splitlines()[:1] == [want] and "(error" not in out
            res["queries"].append({"lemma": qn, "solver": solver[0], "answer": out[:60], "expected": want, "seconds": round(time.time() - t0, 2)})
            if not good:
                ok = False
    return ok, res


if __name__ == "__main__":
    import json, sys
    ok, res = discharge(sys.argv[1] if len(sys.argv) > 1 else "crc32-burst")
    print(json.dumps(res, indent=1))
    sys.exit(0 if ok else 2)
